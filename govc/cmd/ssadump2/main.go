

package main

import (
	"fmt"
	"os"

	"golang.org/x/tools/go/packages"
	"golang.org/x/tools/go/ssa"
	"golang.org/x/tools/go/ssa/ssautil"
)

func main() {
	cfg := &packages.Config{Mode: packages.LoadAllSyntax, Dir: "/repo", BuildFlags: []string{"-tags=verif"}}
	pkgs, err := packages.Load(cfg, os.Args[1])
	if err != nil {
		panic(err)
	}
	prog, spkgs := ssautil.AllPackages(pkgs, ssa.NaiveForm|ssa.GlobalDebug)
	prog.Build()
	for _, p := range spkgs {
		if p == nil {
			continue
		}
		for _, m := range p.Members {
			switch m := m.(type) {
			case *ssa.Function:
				dump(m, os.Args[2])
			case *ssa.Type:
				ms := prog.MethodSets.MethodSet(m.Type())
				_ = ms
				if n, ok := m.Type().(interface{ NumMethods() int }); ok {
					_ = n
				}
			}
		}
		for _, m := range p.Members {
			if t, ok := m.(*ssa.Type); ok {
				for _, recv := range []bool{false, true} {
					_ = recv
				}
				named := t.Object().Type()
				_ = named
			}
		}
	}
	for fn := range ssautil.AllFunctions(prog) {
		dump(fn, os.Args[2])
	}
}

var seen = map[*ssa.Function]bool{}

func dump(fn *ssa.Function, pat string) {
	if seen[fn] || fn.String() != pat {
		return
	}
	seen[fn] = true
	fn.WriteTo(os.Stdout)
	fmt.Println()
}

package main

import (
	"fmt"
	"go/token"
	"go/types"
	"os"
	"path/filepath"
	"sort"
	"strings"

	"golang.org/x/tools/go/packages"
	"golang.org/x/tools/go/ssa"
	"golang.org/x/tools/go/ssa/ssautil"
)

const modPath = "github.com/olareg/olareg"

// Ctx is the program-wide context.
type Ctx struct {
	repo       string
	prog       *ssa.Program
	fset       *token.FileSet
	pkgs       map[string]*ssa.Package // by path
	ppkgs      map[string]*packages.Package
	funcs      map[string]*ssa.Function // "pkgpath::Key" -> function
	fnKey      map[*ssa.Function]string
	contracts  map[string]*ContractFile        // by package path
	escFields  map[string]bool                 // "S.sortname#idx" fields whose address escapes
	merged     map[*ssa.Function]*FuncContract // explicit contract merged with the matching funcs blocks
	mutGlobals map[string]bool                 // globals stored to outside package initialisers
	writeSets  map[*ssa.Function]*WriteSet
	wsBusy     map[*ssa.Function]bool
	instWS     map[string]*WriteSet
	instTmp    map[*ssa.Function]*WriteSet
	mirrorUsed []string
	opts       Options
}

type Options struct {
	Timeout int // seconds per obligation
	Tier    string
	Seed    int
	KeepSMT bool
	Verbose bool
}

func pkgDir(path string) string {
	if path == modPath {
		return ""
	}
	return strings.TrimPrefix(path, modPath+"/")
}

func loadProgram(repo string, patterns []string, overlay map[string][]byte) (*Ctx, error) {
	cfg := &packages.Config{
		Mode:       packages.LoadAllSyntax,
		Dir:        repo,
		BuildFlags: []string{"-tags=verif"},
		Env:        append(os.Environ(), "GOFLAGS=-mod=mod", "GOPROXY=off", "GOSUMDB=off", "GOTOOLCHAIN=local"),
		Overlay:    overlay,
	}
	pkgs, err := packages.Load(cfg, patterns...)
	if err != nil {
		return nil, err
	}
	nerr := 0
	packages.Visit(pkgs, nil, func(p *packages.Package) {
		for _, e := range p.Errors {
			fmt.Fprintln(os.Stderr, "load error:", e)
			nerr++
		}
	})
	if nerr > 0 {
		return nil, fmt.Errorf("%d package load errors", nerr)
	}
	prog, spkgs := ssautil.AllPackages(pkgs, ssa.NaiveForm|ssa.GlobalDebug)
	prog.Build()
	c := &Ctx{repo: repo, prog: prog, fset: prog.Fset, pkgs: map[string]*ssa.Package{}, ppkgs: map[string]*packages.Package{},
		funcs: map[string]*ssa.Function{}, fnKey: map[*ssa.Function]string{}, contracts: map[string]*ContractFile{},
		escFields: map[string]bool{}, mutGlobals: map[string]bool{}, writeSets: map[*ssa.Function]*WriteSet{}, wsBusy: map[*ssa.Function]bool{}, instWS: map[string]*WriteSet{}, merged: map[*ssa.Function]*FuncContract{}}
	for i, sp := range spkgs {
		if sp == nil {
			continue
		}
		path := sp.Pkg.Path()
		if path != modPath && !strings.HasPrefix(path, modPath+"/") {
			continue
		}
		c.pkgs[path] = sp
		c.ppkgs[path] = pkgs[i]
		c.collectFuncs(sp)
	}
	// contracts
	for path := range c.pkgs {
		dir := pkgDir(path)
		f := filepath.Join(repo, dir, "verif_contracts.go")
		if os.Getenv("VERIF_CONTRACTS") == "mirror" { // development: read the working copies under /verif/contracts
			if m := filepath.Join(verifRoot(), "contracts", dir, "verif_contracts.go"); fileExists(m) {
				f = m
			}
		}
		if _, err := os.Stat(f); err != nil {
			m := filepath.Join(verifRoot(), "contracts", dir, "verif_contracts.go")
			if _, err2 := os.Stat(m); err2 != nil {
				continue
			}
			f = m
			c.mirrorUsed = append(c.mirrorUsed, dir)
		}
		cf, err := parseContractFile(f, path)
		if err != nil {
			return nil, err
		}
		c.contracts[path] = cf
	}
	c.scanEscFields()
	return c, nil
}

func verifRoot() string {
	if v := os.Getenv("VERIF_ROOT"); v != "" {
		return v
	}
	return "/verif"
}

func recvTypeName(t types.Type) string {
	t = types.Unalias(t)
	if p, ok := t.(*types.Pointer); ok {
		t = types.Unalias(p.Elem())
	}
	if n, ok := t.(*types.Named); ok {
		return n.Obj().Name()
	}
	return ""
}

func (c *Ctx) keyOf(fn *ssa.Function) string {
	if k, ok := c.fnKey[fn]; ok {
		return k
	}
	root := fn
	for root.Parent() != nil {
		root = root.Parent()
	}
	key := fn.Name()
	if recv := root.Signature.Recv(); recv != nil {
		key = recvTypeName(recv.Type()) + "." + fn.Name()
	}
	return key
}

func (c *Ctx) addFunc(fn *ssa.Function) {
	if fn == nil || fn.Blocks == nil {
		return
	}
	if _, ok := c.fnKey[fn]; ok {
		return
	}
	if fn.Origin() != nil { // instantiation: use the generic body
		return
	}
	key := c.keyOf(fn)
	c.fnKey[fn] = key
	pkg := fn.Pkg
	if pkg == nil {
		r := fn
		for r.Parent() != nil {
			r = r.Parent()
		}
		pkg = r.Pkg
	}
	if pkg == nil {
		return
	}
	c.funcs[pkgDirName(pkg.Pkg.Path())+"::"+key] = fn
	for _, a := range fn.AnonFuncs {
		c.addFunc(a)
	}
}

func (c *Ctx) collectFuncs(sp *ssa.Package) {
	for _, m := range sp.Members {
		switch m := m.(type) {
		case *ssa.Function:
			if m.Synthetic != "" && m.Name() == "init" {
				continue
			}
			c.addFunc(m)
		case *ssa.Type:
			named, ok := m.Type().(*types.Named)
			if !ok {
				continue
			}
			for i := 0; i < named.NumMethods(); i++ {
				c.addFunc(c.prog.FuncValue(named.Method(i)))
			}
		}
	}
}

// sortedFuncs returns scope functions in a stable order.
func (c *Ctx) sortedFuncs() []string {
	ks := make([]string, 0, len(c.funcs))
	for k := range c.funcs {
		ks = append(ks, k)
	}
	sort.Strings(ks)
	return ks
}

func (c *Ctx) contractFor(fn *ssa.Function) *FuncContract {
	if o := fn.Origin(); o != nil {
		fn = o
	}
	key, ok := c.fnKey[fn]
	if !ok {
		return nil
	}
	pkg := c.pkgOf(fn)
	if pkg == nil {
		return nil
	}
	cf := c.contracts[pkg.Pkg.Path()]
	if cf == nil {
		return nil
	}
	fc := cf.Funcs[key]
	if len(cf.Groups) == 0 || (fc != nil && (fc.IsIface || fc.IsCB)) {
		return fc
	}
	if m, ok := c.merged[fn]; ok {
		return m
	}
	var m *FuncContract
	for _, g := range cf.Groups {
		if !groupMatches(g.Patterns, key) {
			continue
		}
		if m == nil {
			if fc != nil {
				cp := *fc
				cp.Requires = append([]Clause{}, fc.Requires...)
				cp.Ensures = append([]Clause{}, fc.Ensures...)
				cp.Props = append([]string{}, fc.Props...)
				cp.FsPaths = append([]Clause{}, fc.FsPaths...)
				m = &cp
			} else {
				m = &FuncContract{Pkg: cf.Pkg, Key: key, RecvName: "recv", Loops: map[int]*LoopSpec{}, Line: g.Line}
				for i := 0; i < fn.Signature.Params().Len(); i++ {
					m.Params = append(m.Params, fn.Signature.Params().At(i).Name())
				}
			}
		}
		add := func(dst *[]Clause, src []Clause) {
			for _, cl := range src {
				if fn.Signature.Recv() == nil && reRecvWord.MatchString(cl.Src) {
					continue // closures and plain functions have no receiver
				}
				if cl.Props == nil {
					cl.Props = g.Props
				}
				*dst = append(*dst, cl)
			}
		}
		add(&m.Requires, g.Requires)
		add(&m.Ensures, g.Ensures)
		add(&m.FsPaths, g.FsPaths)
		// forbid clauses of a funcs block apply to every function it selects (package-wide bans)
		for _, as := range g.Asserts {
			if as.Forbid {
				a2 := as
				if a2.Props == nil {
					a2.Props = g.Props
				}
				m.Asserts = append(append([]AssertSpec{}, m.Asserts...), a2)
			}
		}
		// the properties of a funcs block tag its own clauses only, not the function's other obligations
	}
	if m == nil {
		m = fc
	}
	c.merged[fn] = m
	return m
}

func (c *Ctx) pkgOf(fn *ssa.Function) *ssa.Package {
	r := fn
	for r.Parent() != nil {
		r = r.Parent()
	}
	return r.Pkg
}

// scanEscFields finds non-struct fields whose address is used as a value.
func (c *Ctx) scanEscFields() {
	for _, fn := range c.funcs {
		for _, b := range fn.Blocks {
			for _, ins := range b.Instrs {
				if s, ok := ins.(*ssa.Store); ok {
					if g, ok := s.Addr.(*ssa.Global); ok {
						c.mutGlobals[g.Pkg.Pkg.Name()+"."+g.Name()] = true
					}
				}
				fa, ok := ins.(*ssa.FieldAddr)
				if !ok {
					continue
				}
				st := fa.X.Type().Underlying().(*types.Pointer).Elem()
				ft := structOf(st).Field(fa.Field).Type()
				if structOf(ft) != nil {
					continue
				}
				for _, ref := range *fa.Referrers() {
					switch r := ref.(type) {
					case *ssa.UnOp, *ssa.DebugRef, *ssa.IndexAddr, *ssa.FieldAddr:
					case *ssa.Store:
						if r.Val == ssa.Value(fa) {
							c.escFields[escKey(st, fa.Field)] = true
						}
					case *ssa.Slice:
						// slicing an array-typed field: handled as array value
					default:
						c.escFields[escKey(st, fa.Field)] = true
					}
				}
			}
		}
	}
}

func escKey(structT types.Type, idx int) string {
	return fmt.Sprintf("%s#%d", typeKey(types.Unalias(structT)), idx)
}

func fileExists(p string) bool {
	_, err := os.Stat(p)
	return err == nil
}

package main

import (
	"flag"
	"fmt"
	"os"
	"path/filepath"
	"runtime/debug"
	"sort"
	"strings"
)

func usage() {
	fmt.Fprintln(os.Stderr, `usage:
  govc fn    [-repo /repo] [-t secs] [-keep] [-only substr] <pkg::Key> ...   encode and check functions (debug)
  govc check [-repo /repo] -property ID [-tier quick|thorough]              run a property check
  govc lock  [-repo /repo] [-property ID]                                   (re)write obligations.lock
  govc list  [-repo /repo]                                                  list functions in scope`)
	os.Exit(2)
}

func main() {
	if len(os.Args) < 2 {
		usage()
	}
	switch os.Args[1] {
	case "fn":
		cmdFn(os.Args[2:])
	case "check":
		os.Exit(cmdCheck(os.Args[2:]))
	case "lock":
		os.Exit(cmdLock(os.Args[2:]))
	case "locals":
		// (re)write /verif/locals.lock: the named locals of every function under contract (rename-tolerant binding)
		c, err := loadProgram("/repo", []string{"./..."}, nil)
		if err != nil {
			fmt.Fprintln(os.Stderr, err)
			os.Exit(2)
		}
		c.writeLocalsLock()
	case "list":
		cmdList(os.Args[2:])
	case "selftest":
		os.Exit(cmdSelftest(os.Args[2:]))
	default:
		usage()
	}
}

func workDir(sub string) string {
	d := filepath.Join(verifRoot(), "work", sub)
	_ = os.MkdirAll(d, 0o755)
	return d
}

func cmdList(args []string) {
	fs := flag.NewFlagSet("list", flag.ExitOnError)
	repo := fs.String("repo", "/repo", "")
	_ = fs.Parse(args)
	c, err := loadProgram(*repo, []string{"./..."}, nil)
	if err != nil {
		fmt.Fprintln(os.Stderr, err)
		os.Exit(2)
	}
	for _, k := range c.sortedFuncs() {
		fn := c.funcs[k]
		mark := " "
		if c.contractFor(fn) != nil {
			mark = "C"
		}
		fmt.Printf("%s %s\n", mark, k)
	}
}

// encode runs the encoder on one function, recovering from internal errors.
func (c *Ctx) encode(key string) (fe *FnEnc, err error) {
	fn := c.funcs[key]
	if fn == nil {
		return nil, fmt.Errorf("no function %s", key)
	}
	defer func() {
		if r := recover(); r != nil {
			err = fmt.Errorf("encoder panic in %s: %v\n%s", key, r, debug.Stack())
		}
	}()
	fe = c.newFnEnc(fn, false)
	fe.run()
	return fe, nil
}

func cmdFn(args []string) {
	fs := flag.NewFlagSet("fn", flag.ExitOnError)
	repo := fs.String("repo", "/repo", "")
	timeout := fs.Int("t", 10, "")
	only := fs.String("only", "", "")
	propF := fs.String("prop", "", "only obligations tagged with this property")
	escal := fs.Bool("esc", false, "")
	verbose := fs.Bool("v", false, "")
	patch := fs.String("patch", "", "unified diff applied through the loader overlay")
	_ = fs.Parse(args)
	var ov map[string][]byte
	if *patch != "" {
		var err error
		ov, err = overlayFromPatch(*repo, *patch)
		if err != nil {
			fmt.Fprintln(os.Stderr, err)
			os.Exit(2)
		}
	}
	c, err := loadProgram(*repo, []string{"./..."}, ov)
	if err != nil {
		fmt.Fprintln(os.Stderr, err)
		os.Exit(2)
	}
	dir := workDir("fn")
	for _, key := range fs.Args() {
		var keys []string
		for _, k := range c.sortedFuncs() {
			if k == key || strings.HasSuffix(k, "::"+key) || (strings.HasSuffix(key, "*") && strings.HasPrefix(k, strings.TrimSuffix(key, "*"))) {
				keys = append(keys, k)
			}
		}
		if len(keys) == 0 {
			fmt.Println("no function matches", key)
		}
		for _, k := range keys {
			fe, err := c.encode(k)
			if err != nil {
				fmt.Println(err)
				continue
			}
			var jobs []job
			for _, o := range fe.obls {
				if (*only == "" || strings.Contains(o.ID, *only)) && (*propF == "" || hasProp(o.Props, *propF)) {
					jobs = append(jobs, job{fe, o})
				}
			}
			res := solveAll(jobs, dir, *timeout, 0, *escal, 16)
			nok := 0
			for _, r := range res {
				if r.OK {
					nok++
				}
				if !r.OK || *verbose {
					fmt.Printf("  %-7s %-6s %5.2fs %s  [%s] %s\n", r.Status, r.Solver, r.Secs, r.Obl.ID, strings.Join(r.Obl.Props, ","), c.fset.Position(r.Obl.Pos))
				}
			}
			fmt.Printf("%s: %d obligations, %d ok; unsupported=%v havocs=%v\n", k, len(res), nok, fe.unsupp, sortedKeys(fe.havocs))
		}
	}
}

func sortedResults(rs []Result) {
	sort.Slice(rs, func(i, j int) bool { return rs[i].Obl.ID < rs[j].Obl.ID })
}

package main

import (
	"bufio"
	"bytes"
	"context"
	"encoding/json"
	"flag"
	"fmt"
	"os"
	"os/exec"
	"path/filepath"
	"regexp"
	"sort"
	"strconv"
	"strings"
	"time"
)

var sweepPkgs = map[string]bool{"olareg": true, "types": true, "internal/store": true, "internal/cache": true, "config": true}

type lockEntry struct {
	Status string // proved | open | cover
	Props  []string
	ID     string
	Note   string
}

func lockPath() string { return filepath.Join(verifRoot(), "obligations.lock") }

func readLock() (map[string]*lockEntry, error) {
	m := map[string]*lockEntry{}
	f, err := os.Open(lockPath())
	if err != nil {
		if os.IsNotExist(err) {
			return m, nil
		}
		return nil, err
	}
	defer f.Close()
	sc := bufio.NewScanner(f)
	sc.Buffer(make([]byte, 1<<20), 1<<20)
	for sc.Scan() {
		l := sc.Text()
		if l == "" || strings.HasPrefix(l, "#") {
			continue
		}
		p := strings.SplitN(l, "\t", 4)
		if len(p) < 3 {
			continue
		}
		e := &lockEntry{Status: p[0], Props: strings.Split(p[1], ","), ID: p[2]}
		if len(p) == 4 {
			e.Note = p[3]
		}
		m[e.ID] = e
	}
	return m, sc.Err()
}

func writeLock(m map[string]*lockEntry) error {
	ids := make([]string, 0, len(m))
	for id := range m {
		ids = append(ids, id)
	}
	sort.Strings(ids)
	var sb strings.Builder
	sb.WriteString("# obligations.lock: written only by `govc lock`; status <tab> properties <tab> obligation id <tab> note\n")
	for _, id := range ids {
		e := m[id]
		sb.WriteString(e.Status + "\t" + strings.Join(e.Props, ",") + "\t" + e.ID)
		if e.Note != "" {
			sb.WriteString("\t" + e.Note)
		}
		sb.WriteString("\n")
	}
	return os.WriteFile(lockPath(), []byte(sb.String()), 0o644)
}

type finding struct {
	Kind, Prop, Obl, What string
}

func readFindings() []finding {
	var out []finding
	b, err := os.ReadFile(filepath.Join(verifRoot(), "KNOWN_FINDINGS.txt"))
	if err != nil {
		return nil
	}
	for _, l := range strings.Split(string(b), "\n") {
		l = strings.TrimSpace(l)
		if l == "" || strings.HasPrefix(l, "#") {
			continue
		}
		f := finding{}
		switch {
		case strings.HasPrefix(l, "finding:"):
			f.Kind = "finding"
			l = strings.TrimSpace(l[len("finding:"):])
		case strings.HasPrefix(l, "fixed:"):
			f.Kind = "fixed"
			l = strings.TrimSpace(l[len("fixed:"):])
		default:
			continue
		}
		for _, kv := range splitKV(l) {
			switch kv[0] {
			case "property":
				f.Prop = kv[1]
			case "obligation":
				f.Obl = kv[1]
			case "what":
				f.What = kv[1]
			}
		}
		out = append(out, f)
	}
	return out
}

// splitKV parses `k=v k2=v2 what=free text to end`.
func splitKV(l string) [][2]string {
	var out [][2]string
	for l != "" {
		l = strings.TrimSpace(l)
		i := strings.Index(l, "=")
		if i < 0 {
			break
		}
		k := l[:i]
		rest := l[i+1:]
		if k == "what" {
			out = append(out, [2]string{k, rest})
			break
		}
		j := strings.Index(rest, " ")
		if j < 0 {
			out = append(out, [2]string{k, rest})
			break
		}
		out = append(out, [2]string{k, rest[:j]})
		l = rest[j+1:]
	}
	return out
}

func hasProp(ps []string, p string) bool {
	for _, x := range ps {
		if x == p {
			return true
		}
	}
	return false
}

// functionsFor lists the functions whose obligations can belong to a property.
func (c *Ctx) functionsFor(prop string) []string {
	// Obligations inherit properties from callee contracts (preconditions at call sites), so the
	// functions that can carry an obligation of a property are not only those whose own contract
	// mentions it: every function under contract, and every function of the swept packages, is
	// encoded and the obligations are filtered by property afterwards.
	var out []string
	for _, k := range c.sortedFuncs() {
		fn := c.funcs[k]
		pkg, _, _ := strings.Cut(k, "::")
		fc := c.contractFor(fn)
		if sweepPkgs[pkg] {
			out = append(out, k)
			continue
		}
		if fc == nil || fc.Trusted {
			continue
		}
		out = append(out, k)
	}
	return out
}

var _ = contractMentions

func contractMentions(fc *FuncContract, prop string) bool {
	if hasProp(fc.Props, prop) {
		return true
	}
	for _, cl := range fc.Requires {
		if hasProp(cl.Props, prop) {
			return true
		}
	}
	for _, cl := range fc.Ensures {
		if hasProp(cl.Props, prop) {
			return true
		}
	}
	for _, l := range fc.Loops {
		for _, cl := range l.Invs {
			if hasProp(cl.Props, prop) {
				return true
			}
		}
	}
	for _, a := range fc.Asserts {
		if hasProp(a.Props, prop) {
			return true
		}
	}
	return false
}

type runOut struct {
	results   []Result
	fes       map[string]*FnEnc
	encErrs   []string
	funcs     []string
	assumed   map[string]bool
	havocs    map[string]bool
	unsupp    map[string][]string
	encSecs   float64
	solveSecs float64
	skipped   map[string]bool // generated, but open in the lock: not solved
}

// runProperty encodes all functions of a property and solves the obligations tagged with it.
func (c *Ctx) runProperty(prop string, timeout, seed int, escalate bool, skip func(id string) bool) *runOut {
	out := &runOut{fes: map[string]*FnEnc{}, assumed: map[string]bool{}, havocs: map[string]bool{}, unsupp: map[string][]string{}}
	t0 := time.Now()
	var jobs []job
	for _, k := range c.functionsFor(prop) {
		fe, err := c.encode(k)
		if err != nil {
			out.encErrs = append(out.encErrs, err.Error())
			continue
		}
		out.fes[k] = fe
		n := 0
		for _, o := range fe.obls {
			if !hasProp(o.Props, prop) {
				continue
			}
			if len(fe.unsupp) > 0 {
				o.Note = "function uses unsupported constructs: " + strings.Join(fe.unsupp, "; ")
			}
			if skip != nil && skip(o.ID) {
				if out.skipped == nil {
					out.skipped = map[string]bool{}
				}
				out.skipped[o.ID] = true
				continue
			}
			jobs = append(jobs, job{fe, o})
			n++
		}
		if n > 0 {
			out.funcs = append(out.funcs, k)
			for a := range fe.assumed {
				out.assumed[a] = true
			}
			for h := range fe.havocs {
				out.havocs[h] = true
			}
			if len(fe.unsupp) > 0 {
				out.unsupp[k] = fe.unsupp
			}
		}
	}
	out.encSecs = time.Since(t0).Seconds()
	t1 := time.Now()
	dir := workDir("check-" + prop)
	out.results = solveAll(jobs, dir, timeout, seed, escalate, 16)
	nFn := len(out.results)
	// regular expressions of the code against the grammar stated in the contract (`regexp` clauses)
	for _, r := range c.regexResults(prop, dir, timeout, skip) {
		out.results = append(out.results, r)
		out.assumed["regexp/syntax gives the language of a Go regular expression; only expressions anchored with ^...$ are compared"] = true
	}
	// Second chance, one at a time: with 16 solvers running at once a query that needs a few seconds can run into its
	// time limit.  Obligations that were not refuted (no `sat`) are tried again alone, with twice the time, before
	// they are reported; a handful only - a mass failure is not a load problem.
	var again []int
	for i := range out.results[:nFn] {
		r := &out.results[i]
		if !r.OK && !r.Obl.Cover && r.Status != "sat" && !retrySkip[r.Obl.ID] {
			again = append(again, i)
		}
	}
	if len(again) > 0 && len(again) <= 8 && !noRetry {
		for _, i := range again {
			r2 := solveOne(jobs[i].fe, jobs[i].o, dir, 2*timeout, seed, true)
			if os.Getenv("VERIF_DEBUG") != "" {
				fmt.Fprintf(os.Stderr, "retry %s: %s %v\n", jobs[i].o.ID, r2.Status, r2.Tried)
			}
			if r2.OK {
				r2.Solver += " (retried alone)"
				out.results[i] = r2
			}
		}
	}
	out.solveSecs = time.Since(t1).Seconds()
	return out
}

var noRetry bool

// retrySkip: obligations that are not worth a second, sequential attempt (open in the lock that is being rewritten)
var retrySkip = map[string]bool{}

func envInt(name string, def int) int {
	if v := os.Getenv(name); v != "" {
		if n, err := strconv.Atoi(v); err == nil {
			return n
		}
	}
	return def
}

func cmdLock(args []string) int {
	fs := flag.NewFlagSet("lock", flag.ExitOnError)
	repo := fs.String("repo", "/repo", "")
	prop := fs.String("property", "", "")
	timeout := fs.Int("t", 10, "")
	_ = fs.Parse(args)
	c, err := loadProgram(*repo, []string{"./..."}, nil)
	if err != nil {
		fmt.Fprintln(os.Stderr, err)
		return 2
	}
	lock, err := readLock()
	if err != nil {
		fmt.Fprintln(os.Stderr, err)
		return 2
	}
	props := allProps()
	if *prop != "" {
		props = strings.Split(*prop, ",")
	}
	for _, p := range props {
		// drop this property's old entries
		for id, e := range lock {
			if hasProp(e.Props, p) {
				if e.Status == "open" && os.Getenv("VERIF_LOCK_RETRY_OPEN") == "" {
					retrySkip[id] = true
				}
				delete(lock, id)
			}
		}
		// stability bar: must discharge within half the quick budget
		out := c.runProperty(p, max(2, *timeout/2), 0, true, nil)
		for _, e := range out.encErrs {
			fmt.Fprintln(os.Stderr, "encoder error:", e)
		}
		np, no := 0, 0
		for _, r := range out.results {
			st := "proved"
			note := ""
			if r.Obl.Cover {
				st = "cover"
				if !r.OK {
					st = "open"
					note = "cover is unsat (vacuous)"
				}
			} else if !r.OK {
				st = "open"
				note = r.Status
			}
			if r.Obl.Note != "" && st == "proved" {
				st = "open"
				note = r.Obl.Note
			}
			if st == "open" {
				no++
				fmt.Printf("open: %s (%s) %s\n", r.Obl.ID, r.Status, note)
			} else {
				np++
			}
			if old, ok := lock[r.Obl.ID]; ok {
				old.Props = unionProps(old.Props, r.Obl.Props)
				continue
			}
			lock[r.Obl.ID] = &lockEntry{Status: st, Props: r.Obl.Props, ID: r.Obl.ID, Note: note}
		}
		fmt.Printf("%s: %d locked, %d open\n", p, np, no)
	}
	c.writeLocalsLock()
	if err := writeLock(lock); err != nil {
		fmt.Fprintln(os.Stderr, err)
		return 2
	}
	return 0
}

func allProps() []string {
	var out []string
	for i := 1; i <= 20; i++ {
		out = append(out, fmt.Sprintf("C%02d", i))
	}
	return out
}

type evidence struct {
	PropertyID  string         `json:"property_id"`
	Tier        string         `json:"tier"`
	Seed        int            `json:"seed"`
	Level       string         `json:"level"`
	Coverage    map[string]any `json:"coverage"`
	Assumptions []string       `json:"assumptions"`
	WallS       float64        `json:"wall_s"`
	Violations  int            `json:"violations"`
}

func cmdCheck(args []string) int {
	fs := flag.NewFlagSet("check", flag.ExitOnError)
	repo := fs.String("repo", "/repo", "")
	prop := fs.String("property", "", "")
	tier := fs.String("tier", "", "")
	_ = fs.Parse(args)
	if *tier == "" {
		*tier = os.Getenv("VERIF_TIER")
	}
	if *tier == "" {
		*tier = "quick"
	}
	if *prop == "" {
		usage()
	}
	seed := envInt("VERIF_SEED", 0)
	t0 := time.Now()
	timeout := 10
	if *tier == "thorough" {
		timeout = 60
	}
	c, err := loadProgram(*repo, []string{"./..."}, nil)
	if err != nil {
		// a tree that does not load is not a property violation; report as an error of the check
		fmt.Fprintln(os.Stderr, "cannot load /repo:", err)
		return 2
	}
	lock, err := readLock()
	if err != nil {
		fmt.Fprintln(os.Stderr, err)
		return 2
	}
	findings := readFindings()
	known := map[string]finding{}
	for _, f := range findings {
		if f.Kind == "finding" && f.Prop == *prop {
			known[f.Obl] = f
		}
	}
	out := c.runProperty(*prop, timeout, seed, true, func(id string) bool {
		e, ok := lock[id]
		_, isKnown := known[id]
		return ok && e.Status == "open" && !isKnown
	})
	type viol struct {
		id, why, detail string
		res             *Result
	}
	var viols []viol
	seen := map[string]bool{}
	nOb, nDis, nCover, nCoverOK, nNew := 0, 0, 0, 0, 0
	var openList, knownHit []string
	solverCount := map[string]int{}
	solverSecs := 0.0
	var samples []map[string]any
	sortedResults(out.results)
	for i := range out.results {
		r := &out.results[i]
		seen[r.Obl.ID] = true
		solverSecs += r.Secs
		if f, ok := known[r.Obl.ID]; ok {
			if !r.OK {
				knownHit = append(knownHit, fmt.Sprintf("KNOWN-FINDING: property=%s %s (obligation %s)", *prop, f.What, r.Obl.ID))
			} else {
				fmt.Fprintf(os.Stderr, "note: known finding %s now discharges\n", r.Obl.ID)
			}
			continue
		}
		if r.Obl.Cover {
			nCover++
			if r.OK {
				nCoverOK++
			} else {
				viols = append(viols, viol{r.Obl.ID, "cover obligation is unsatisfiable: contract or path became vacuous", "", r})
			}
			continue
		}
		nOb++
		if _, ok := lock[r.Obl.ID]; !ok {
			nNew++
		}
		if r.OK {
			nDis++
			solverCount[r.Solver]++
			if len(samples) < 6 {
				samples = append(samples, map[string]any{"obligation": r.Obl.ID, "result": r.Status, "solver": r.Solver, "seconds": round3(r.Secs), "smt_bytes": r.Size})
			}
			continue
		}
		why := "obligation not discharged: solver answered " + r.Status
		viols = append(viols, viol{r.Obl.ID, why, "", r})
	}
	// Robustness against harmless edits.  The identifier of an annotation-free obligation (nil, bounds, fspath, ...)
	// contains the source text of the expression, so renaming a local renames the obligation:
	//  - a locked, proved obligation of such a kind that is no longer generated is not an alarm (its successor is
	//    generated under a new name and has to discharge like any new obligation);
	//  - a new failing obligation of such a kind is taken to be a renamed `open` one as long as the function has
	//    at least as many open entries of that kind in the lock that were not generated under their old name.
	// Obligations of contract clauses (post, pre, assert, loop invariants) are matched by name; only a trailing
	// ordinal (#k: k-th return or k-th occurrence) may disappear while another instance of the clause remains.
	renamedBudget := map[string]int{}
	for id, e := range lock {
		if hasProp(e.Props, *prop) && e.Status == "open" && !seen[id] && !out.skipped[id] && textKeyed(id) {
			renamedBudget[funcKind(id)]++
		}
	}
	newFail := map[string]int{}
	for _, v := range viols {
		if _, inLock := lock[v.id]; !inLock && v.res != nil && textKeyed(v.id) {
			newFail[funcKind(v.id)]++
		}
	}
	nRenamedOpen, nRenamedProved := 0, 0
	{
		kept := viols[:0]
		for _, v := range viols {
			_, inLock := lock[v.id]
			if !inLock && v.res != nil && textKeyed(v.id) && newFail[funcKind(v.id)] <= renamedBudget[funcKind(v.id)] {
				openList = append(openList, v.id+" (open under an earlier name)")
				nRenamedOpen++
				nOb--
				continue
			}
			kept = append(kept, v)
		}
		viols = kept
	}
	generatedBase := map[string]bool{}
	for id := range seen {
		generatedBase[oblBase(id)] = true
	}
	for id := range out.skipped {
		generatedBase[oblBase(id)] = true
	}
	// locked obligations that are no longer generated
	for id, e := range lock {
		if !hasProp(e.Props, *prop) || seen[id] {
			continue
		}
		if e.Status == "open" {
			openList = append(openList, id+" ("+e.Note+")")
			continue
		}
		if textKeyed(id) || e.Status == "cover" && generatedBase[oblBase(id)] {
			nRenamedProved++
			continue
		}
		if oblBase(id) != id && generatedBase[oblBase(id)] {
			nRenamedProved++
			continue
		}
		viols = append(viols, viol{id, "locked obligation is no longer generated (function, loop or contract clause disappeared or no longer binds)", "", nil})
	}
	for _, e := range out.encErrs {
		viols = append(viols, viol{"encoder", "encoder failed: " + strings.SplitN(e, "\n", 2)[0], e, nil})
	}
	sort.Strings(openList)
	replayDir := filepath.Join(verifRoot(), "replays", *prop)
	// bounded stand-in (labelled bounded, never counted as proved): exhaustive run of the real code over a small universe
	var boundedInfo map[string]any
	type bviol struct{ id, msg string }
	var bviols []bviol
	if pkg, ok := boundedHarness[*prop]; ok {
		var fails [][2]string
		boundedInfo, fails = runBounded(c, *prop, *tier, pkg, replayDir)
		for _, f := range fails {
			id := "bounded:" + f[0]
			if kf, ok := known[id]; ok {
				knownHit = append(knownHit, fmt.Sprintf("KNOWN-FINDING: property=%s %s (%s)", *prop, kf.What, id))
				continue
			}
			bviols = append(bviols, bviol{id, f[1]})
		}
	}
	// report
	for _, k := range knownHit {
		fmt.Println(k)
	}
	for _, b := range bviols {
		d := filepath.Join(replayDir, sanitizeFile(b.id))
		_ = os.MkdirAll(d, 0o755)
		rb, _ := json.MarshalIndent(map[string]any{"property": *prop, "obligation": b.id, "kind": "bounded stand-in: failing input found on the real code",
			"failing_input": b.msg, "rerun": boundedInfo["command"]}, "", " ")
		path := filepath.Join(d, "replay.json")
		_ = os.WriteFile(path, rb, 0o644)
		fmt.Printf("VIOLATION property=%s replay=%s obligation=%s\n", *prop, path, b.id)
		fmt.Fprintf(os.Stderr, "  %s: %s\n", b.id, b.msg)
	}
	for _, v := range viols {
		path, found := writeReplay(c, replayDir, *prop, v.id, v.why, v.res, out)
		suffix := ""
		if !found {
			suffix = " no-failing-input-found"
		}
		fmt.Printf("VIOLATION property=%s replay=%s obligation=%s%s\n", *prop, path, v.id, suffix)
		fmt.Fprintf(os.Stderr, "  %s: %s\n", v.id, v.why)
	}
	// evidence
	var assumptions []string
	for _, a := range sortedKeys(out.assumed) {
		assumptions = append(assumptions, a)
	}
	for _, h := range sortedKeys(out.havocs) {
		assumptions = append(assumptions, "call treated by havoc of all memory (no contract, no model): "+h)
	}
	assumptions = append(assumptions,
		"integers are mathematical; sized types are assumed in range where they enter; overflow is not checked",
		"sequential semantics: goroutines, channels and timers are not modelled; mutexes only as a ghost held-set",
		"strings are an uninterpreted sort with length and a dense total order; no character-level reasoning",
	)
	if len(c.mirrorUsed) > 0 {
		assumptions = append(assumptions, "contract files read from the /verif/contracts mirror for: "+strings.Join(c.mirrorUsed, ", "))
	}
	cov := map[string]any{
		"obligations":                     nOb,
		"discharged":                      nDis,
		"checker_cmd":                     fmt.Sprintf("bin/govc check -property %s -tier %s (z3-new 5.1.0, z3 4.8.12, cvc5 1.0.x; %ds per obligation)", *prop, *tier, timeout),
		"trusted_base":                    trustedBase(),
		"functions_under_contract":        out.funcs,
		"covers":                          nCover,
		"covers_satisfiable_or_undecided": nCoverOK,
		"new_obligations_not_in_lock":     nNew,
		"renamed_text_keyed_obligations":  map[string]int{"locked_proved_not_regenerated_under_old_name": nRenamedProved, "failing_matched_to_open_entries": nRenamedOpen},
		"open_not_claimed":                openList,
		"known_findings":                  knownHit,
		"by_solver":                       solverCount,
		"solver_seconds":                  round3(solverSecs),
		"encode_seconds":                  round3(out.encSecs),
		"samples":                         samples,
		"unsupported":                     out.unsupp,
	}
	if boundedInfo != nil {
		cov["bounded_stand_in"] = boundedInfo
	}
	if *tier == "thorough" {
		thorough(c, *prop, cov, seed)
	}
	if len(samples) == 0 {
		cov["samples"] = []any{"(no obligation discharged)"}
	}
	ev := evidence{PropertyID: *prop, Tier: *tier, Seed: seed, Level: "proof", Coverage: cov, Assumptions: assumptions,
		WallS: round3(time.Since(t0).Seconds()), Violations: len(viols) + len(bviols)}
	eb, _ := json.MarshalIndent(ev, "", " ")
	_ = os.MkdirAll(filepath.Join(verifRoot(), "evidence"), 0o755)
	_ = os.WriteFile(filepath.Join(verifRoot(), "evidence", *prop+".json"), eb, 0o644)
	fmt.Fprintf(os.Stderr, "%s %s: %d obligations, %d discharged, %d covers, %d open (not claimed), %d known findings, %d violations, %.1fs\n",
		*prop, *tier, nOb, nDis, nCover, len(openList), len(knownHit), len(viols), time.Since(t0).Seconds())
	if nOb == 0 && len(viols) == 0 {
		fmt.Fprintln(os.Stderr, "no obligations generated: refusing to report success")
		fmt.Printf("VIOLATION property=%s replay=%s obligation=none no-failing-input-found\n", *prop, filepath.Join(replayDir, "no-obligations.json"))
		return 1
	}
	if len(viols) > 0 || len(bviols) > 0 {
		return 1
	}
	return 0
}

// boundedHarness: properties with a bounded stand-in, and the package whose replay template holds TestVerifBounded.
var boundedHarness = map[string]string{"C05": "internal/store", "C06": "internal/store", "C09": "internal/store", "C10": "internal/store"}

// runBounded runs TestVerifBounded of the package's replay template (go test -overlay) for the property.
func runBounded(c *Ctx, prop, tier, pkg, replayDir string) (map[string]any, [][2]string) {
	return runBoundedOverlay(c, prop, tier, pkg, replayDir, nil)
}

// runBoundedOverlay: extra maps source files to replacement contents (a mutant in the self test).
func runBoundedOverlay(c *Ctx, prop, tier, pkg, replayDir string, extra map[string][]byte) (map[string]any, [][2]string) {
	tmpl := filepath.Join(verifRoot(), "replay", "templates", pkg, "_package_test.go")
	dir := filepath.Join(replayDir, "bounded")
	_ = os.MkdirAll(dir, 0o755)
	repl := map[string]string{filepath.Join(c.repo, pkg, "zz_verif_replay_test.go"): tmpl}
	for f, content := range extra {
		tf := filepath.Join(dir, "mutant_"+sanitizeFile(f))
		_ = os.WriteFile(tf, content, 0o644)
		repl[f] = tf
	}
	ov := map[string]any{"Replace": repl}
	ob, _ := json.Marshal(ov)
	ovFile := filepath.Join(dir, "overlay.json")
	_ = os.WriteFile(ovFile, ob, 0o644)
	ctx, cancel := context.WithTimeout(context.Background(), 15*time.Minute)
	defer cancel()
	cmd := exec.CommandContext(ctx, "go", "test", "-overlay", ovFile, "-vet=off", "-count=1", "-timeout", "14m", "-v", "-run", "TestVerifBounded", "./"+pkg)
	cmd.Dir = c.repo
	cmd.Env = append(os.Environ(), "GOFLAGS=-mod=mod", "GOPROXY=off", "GOSUMDB=off", "GOTOOLCHAIN=local", "VERIF_PROPERTY="+prop, "VERIF_TIER="+tier)
	var outb bytes.Buffer
	cmd.Stdout = &outb
	cmd.Stderr = &outb
	t0 := time.Now()
	_ = cmd.Run()
	text := outb.String()
	_ = os.WriteFile(filepath.Join(dir, "output.txt"), []byte(text), 0o644)
	info := map[string]any{"label": "bounded", "counted_as_proved": false, "harness": tmpl + " (TestVerifBounded)",
		"command": "VERIF_PROPERTY=" + prop + " VERIF_TIER=" + tier + " " + strings.Join(cmd.Args, " "),
		"bound":   "every repository over {2 configs, 2 layers, image inner, image outer listing inner as a layer, index of inner, artifact with subject inner or a layer} x top-level state absent/untagged/tagged x 2 entry orders x 8 policies x (blob of the inner image deleted behind the index or not), grace period off: 2160 repositories per store; quick: memory store, thorough: memory and directory store",
		"seconds": round3(time.Since(t0).Seconds()),
		"decides": "what the contracts on repoGarbageCollect do not decide (DESIGN.md 12.1, 12.8): convergence (a second pass changes nothing), removal of emptied repositories, the history class of known finding D20; and, as a second opinion next to the proof, the closure of the retention rules and the sweep on this universe"}
	var fails [][2]string
	done := false
	for _, l := range strings.Split(text, "\n") {
		if i := strings.Index(l, "BOUNDED-FAIL:"); i >= 0 {
			rest := strings.TrimSpace(l[i+len("BOUNDED-FAIL:"):])
			id, msg, _ := strings.Cut(rest, ": ")
			fails = append(fails, [2]string{id, msg})
		}
		if i := strings.Index(l, "BOUNDED-BOUND:"); i >= 0 {
			info["bound"] = strings.TrimSpace(l[i+len("BOUNDED-BOUND:"):])
		}
		if i := strings.Index(l, "BOUNDED-DONE:"); i >= 0 {
			done = true
			info["result"] = strings.TrimSpace(l[i+len("BOUNDED-DONE:"):])
		}
	}
	if !done {
		fails = append(fails, [2]string{"harness-did-not-finish", "the bounded harness did not run to completion (build failure, panic or time-out): see " + filepath.Join(dir, "output.txt")})
	}
	return info, fails
}

func round3(f float64) float64 { return float64(int(f*1000+0.5)) / 1000 }

func trustedBase() []string {
	return []string{
		"go/packages + go/ssa (x/tools v0.29.0) as front end",
		"govc SSA-to-SMT semantics (/verif/govc), tested by the mutant corpus, not proved",
		"SMT solvers z3 5.1.0, z3 4.8.12, cvc5",
		"effects table for the standard library and go-digest (/verif/govc/cmd/govc/effects.go); every entry used is listed under assumptions",
		"interface, callback and trusted contracts listed under assumptions",
		"induction over operation sequences (per-function proofs are the induction step)",
	}
}

// writeReplay stores what is known about a failed obligation and tries to find a failing input on the real code.
func writeReplay(c *Ctx, dir, prop, id, why string, r *Result, out *runOut) (string, bool) {
	slug := sanitizeFile(id)
	d := filepath.Join(dir, slug)
	_ = os.MkdirAll(d, 0o755)
	rep := map[string]any{"property": prop, "obligation": id, "reason": why}
	found := false
	if r != nil {
		rep["solver_status"] = r.Status
		rep["solver"] = r.Solver
		rep["tried"] = r.Tried
		rep["position"] = c.fset.Position(r.Obl.Pos).String()
		if b, err := os.ReadFile(r.File); err == nil {
			_ = os.WriteFile(filepath.Join(d, "query.smt2"), b, 0o644)
			rep["query"] = filepath.Join(d, "query.smt2")
		}
		if r.Status == "sat" {
			// ask for a model (z3-new)
			var fe *FnEnc
			for _, f := range out.fes {
				for _, o := range f.obls {
					if o == r.Obl {
						fe = f
					}
				}
			}
			if fe != nil {
				mf := filepath.Join(d, "query_model.smt2")
				_ = os.WriteFile(mf, []byte(fe.queryPart(r.Obl, partOf(r), true)), 0o644)
				_, text, _ := runSolver("z3-new", mf, 20, 0)
				if len(text) > 200000 {
					text = text[:200000]
				}
				_ = os.WriteFile(filepath.Join(d, "model.txt"), []byte(text), 0o644)
				rep["model"] = filepath.Join(d, "model.txt")
			}
		}
		rep["solver_output"] = truncate(r.Output, 4000)
		// concrete replay on the real code
		if r.Obl.Kind == "regexp" {
			if rr := replayRegexp(r); rr != nil {
				rep["replay"] = rr
				if rr["failing_input_found"] == true {
					found = true
				}
			}
		} else if rr := replayOnCode(c, prop, id, d); rr != nil {
			rep["replay"] = rr
			if rr["failing_input_found"] == true {
				found = true
			}
		}
	}
	b, _ := json.MarshalIndent(rep, "", " ")
	p := filepath.Join(d, "replay.json")
	_ = os.WriteFile(p, b, 0o644)
	return p, found
}

func truncate(s string, n int) string {
	if len(s) > n {
		return s[:n] + "..."
	}
	return s
}

func partOf(r *Result) int {
	if len(r.Obl.Parts) > 1 {
		return r.Part
	}
	return -1
}

// textKeyed: obligations generated without annotation, named after the source text they guard.
func textKeyed(id string) bool {
	_, rest, ok := strings.Cut(id, "#")
	if !ok {
		return false
	}
	kind := rest
	if i := strings.IndexAny(rest, ":#"); i >= 0 {
		kind = rest[:i]
	}
	switch kind {
	case "nil", "bounds", "mapwrite", "relock", "fspath", "neg", "panic", "div", "typeassert", "chan":
		return true
	}
	return strings.HasSuffix(kind, ".autoinv")
}

// funcKind: "<function>#<kind>" of an obligation id.
func funcKind(id string) string {
	fn, rest, _ := strings.Cut(id, "#")
	kind := rest
	if i := strings.IndexAny(rest, ":#"); i >= 0 {
		kind = rest[:i]
	}
	return fn + "#" + kind
}

var reOrdinal = regexp.MustCompile(`#\d+$`)

// oblBase strips a trailing occurrence ordinal.
func oblBase(id string) string {
	return reOrdinal.ReplaceAllString(id, "")
}

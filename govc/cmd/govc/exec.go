package main

import (
	"fmt"
	"go/ast"
	"go/token"
	"go/types"
	"golang.org/x/tools/go/ast/astutil"
	"sort"
	"strings"

	"golang.org/x/tools/go/ssa"
)

// ---------------------------------------------------------------------
// CFG analysis: natural loops by dominators

func (fe *FnEnc) findLoops() {
	fn := fe.fn
	for _, b := range fn.Blocks {
		for _, s := range b.Succs {
			if s.Dominates(b) { // back edge b -> s
				l := fe.loopOf[s]
				if l == nil {
					l = &Loop{header: s, blocks: map[*ssa.BasicBlock]bool{s: true}, writes: newWriteSet()}
					fe.loopOf[s] = l
					fe.loops = append(fe.loops, l)
				}
				// collect natural loop body
				stack := []*ssa.BasicBlock{b}
				for len(stack) > 0 {
					x := stack[len(stack)-1]
					stack = stack[:len(stack)-1]
					if l.blocks[x] {
						continue
					}
					l.blocks[x] = true
					stack = append(stack, x.Preds...)
				}
			}
		}
	}
	for _, l := range fe.loops {
		l.minPos = token.NoPos
		for b := range l.blocks {
			for _, ins := range b.Instrs {
				if _, ok := ins.(*ssa.DebugRef); ok {
					continue
				}
				if p := ins.Pos(); p.IsValid() && (l.minPos == token.NoPos || p < l.minPos) {
					l.minPos = p
				}
			}
		}
	}
	sort.Slice(fe.loops, func(i, j int) bool {
		if fe.loops[i].minPos != fe.loops[j].minPos {
			return fe.loops[i].minPos < fe.loops[j].minPos
		}
		return fe.loops[i].header.Index < fe.loops[j].header.Index
	})
	for i, l := range fe.loops {
		l.ord = i + 1
		if fe.contract != nil {
			l.spec = fe.contract.Loops[l.ord]
			// `maintains` clauses are invariants of every loop
			var extra []Clause
			for _, cl := range fe.contract.Ensures {
				if cl.Maintained {
					c2 := cl
					if c2.Props == nil {
						c2.Props = fe.contract.Props
					}
					extra = append(extra, c2)
				}
			}
			if len(extra) > 0 {
				sp := &LoopSpec{}
				if l.spec != nil {
					sp.Invs = append(sp.Invs, l.spec.Invs...)
					sp.Decr = l.spec.Decr
					sp.Exits = l.spec.Exits
				}
				sp.Invs = append(sp.Invs, extra...)
				l.spec = sp
			}
		}
	}
}

func (fe *FnEnc) rpo() []*ssa.BasicBlock {
	seen := map[*ssa.BasicBlock]bool{}
	var post []*ssa.BasicBlock
	var dfs func(b *ssa.BasicBlock)
	dfs = func(b *ssa.BasicBlock) {
		seen[b] = true
		for _, s := range b.Succs {
			if !seen[s] && !s.Dominates(b) {
				dfs(s)
			}
		}
		post = append(post, b)
	}
	dfs(fe.fn.Blocks[0])
	for i, j := 0, len(post)-1; i < j; i, j = i+1, j-1 {
		post[i], post[j] = post[j], post[i]
	}
	return post
}

type edge struct {
	from *ssa.BasicBlock
	st   *State
	cond Term
}

// ---------------------------------------------------------------------
// merging

func (fe *FnEnc) merge(edges []edge) *State {
	if len(edges) == 1 {
		st := edges[0].st.clone()
		st.pc = fe.namePC(tAnd(st.pc, edges[0].cond))
		return st
	}
	var pcs []Term
	for _, e := range edges {
		pcs = append(pcs, fe.namePC(tAnd(e.st.pc, e.cond)))
	}
	res := &State{cells: map[*ssa.Alloc]Term{}, ghost: map[ssa.Value]Term{}, heap: map[string]Term{}}
	res.pc = fe.namePC(tOr(pcs...))
	// cells
	cellKeys := map[*ssa.Alloc]bool{}
	for _, e := range edges {
		for k := range e.st.cells {
			cellKeys[k] = true
		}
	}
	for _, k := range sortedAllocs(cellKeys) {
		var vals []Term
		var conds []Term
		for i, e := range edges {
			if v, ok := e.st.cells[k]; ok {
				vals = append(vals, v)
				conds = append(conds, pcs[i])
			}
		}
		res.cells[k] = fe.mergeVals("m."+k.Comment, vals, conds)
	}
	ghostKeys := map[ssa.Value]bool{}
	for _, e := range edges {
		for k := range e.st.ghost {
			ghostKeys[k] = true
		}
	}
	for _, k := range sortedValues(ghostKeys) {
		var vals []Term
		var conds []Term
		for i, e := range edges {
			if v, ok := e.st.ghost[k]; ok {
				vals = append(vals, v)
				conds = append(conds, pcs[i])
			} else if _, isDefer := k.(deferKey); isDefer {
				// a path that never executed the defer statement has not pushed it
				vals = append(vals, tFalse)
				conds = append(conds, pcs[i])
			}
		}
		res.ghost[k] = fe.mergeVals("mg", vals, conds)
	}
	// heap
	sameEpoch := true
	for _, e := range edges {
		if e.st.epoch != edges[0].st.epoch {
			sameEpoch = false
		}
	}
	if sameEpoch {
		res.epoch = edges[0].st.epoch
	} else {
		fe.epochs++
		res.epoch = fe.epochs
		for i, e := range edges {
			fe.epochPar[res.epoch] = append(fe.epochPar[res.epoch], epochParent{pcs[i], e.st.epoch})
		}
	}
	compKeys := map[string]bool{}
	for _, e := range edges {
		for k := range e.st.heap {
			compKeys[k] = true
		}
	}
	for _, k := range sortedKeys(compKeys) {
		srt := fe.compSort[k]
		if srt == "" {
			for _, e := range edges {
				if v, ok := e.st.heap[k]; ok {
					srt = v.Sort
				}
			}
		}
		var vals []Term
		for _, e := range edges {
			vals = append(vals, fe.getComp(e.st, k, srt))
		}
		res.heap[k] = fe.mergeVals(k+"@m", vals, pcs)
	}
	return res
}

func (fe *FnEnc) mergeVals(prefix string, vals []Term, conds []Term) Term {
	same := true
	for _, v := range vals {
		if v.S != vals[0].S {
			same = false
		}
	}
	if same {
		return vals[0]
	}
	if fe.dry {
		return vals[0]
	}
	c := fe.fresh(prefix, vals[0].Sort)
	for i, v := range vals {
		fe.emit("(assert " + tImp(conds[i], tEq(c, v)).S + ")")
	}
	return c
}

func (fe *FnEnc) namePC(t Term) Term {
	if len(t.S) < 30 || fe.dry {
		return t
	}
	c := fe.fresh("pc", sBool)
	fe.emit("(assert (= " + c.S + " " + t.S + "))")
	return c
}

// ---------------------------------------------------------------------
// main driver

func (fe *FnEnc) run() {
	fn := fe.fn
	fe.findLoops()
	if !fe.dry {
		// loop write sets come from a dry run
		d := fe.c.newFnEnc(fn, true)
		d.run()
		for i, l := range fe.loops {
			l.writes = d.loops[i].writes
		}
		// sorts met by the dry run (write sets mention them) are declared up front
		for _, ln := range d.lines {
			if strings.HasPrefix(ln, "(declare-datatypes") || strings.HasPrefix(ln, "(declare-sort") || strings.HasPrefix(ln, "(declare-const |zero.TP.") {
				fe.emit(ln)
			}
		}
		for k, v := range d.sorts.declared {
			fe.sorts.declared[k] = v
		}
		for k, v := range d.sorts.structs {
			fe.sorts.structs[k] = v
		}
		for k, v := range d.sorts.structT {
			fe.sorts.structT[k] = v
		}
		if d.declared["Bytes"] {
			fe.declared["Bytes"] = true
		}
		for k, v := range d.compT {
			fe.compT[k] = v
		}
	}
	for _, b := range fn.Blocks {
		for _, ins := range b.Instrs {
			if df, ok := ins.(*ssa.Defer); ok {
				fe.defers = append(fe.defers, df)
				for _, l := range fe.loops {
					if l.blocks[b] {
						fe.unsupported("defer inside a loop")
					}
				}
			}
		}
	}
	st0 := &State{pc: tTrue, cells: map[*ssa.Alloc]Term{}, ghost: map[ssa.Value]Term{}, heap: map[string]Term{}}
	fe.initEntry(st0)
	out := map[*ssa.BasicBlock]*State{}
	for _, b := range fe.rpo() {
		fe.curBlock = b
		var st *State
		if b.Index == 0 {
			st = st0
		} else {
			var entries, backs []edge
			for _, p := range b.Preds {
				if b.Dominates(p) {
					continue // back edge, handled at the latch
				}
				ps := out[p]
				if ps == nil || ps.dead {
					continue
				}
				entries = append(entries, edge{p, ps, fe.edgeCond(ps, p, b)})
			}
			_ = backs
			if len(entries) == 0 {
				continue // unreachable
			}
			// a latch block with several predecessors is executed once per incoming path, so that
			// the preservation obligations are stated on un-merged states (simpler queries)
			if len(entries) > 1 && len(b.Succs) == 1 && b.Succs[0].Dominates(b) && fe.loopOf[b] == nil && smallBlock(b) {
				for _, e := range entries {
					si := fe.merge([]edge{e})
					fe.execBlock(si, b)
					if !si.dead {
						if l := fe.loopOf[b.Succs[0]]; l != nil {
							fe.loopLatch(si, b, l)
						}
					}
				}
				continue
			}
			st = fe.merge(entries)
		}
		if l := fe.loopOf[b]; l != nil {
			fe.loopHead(st, l)
		}
		fe.execBlock(st, b)
		out[b] = st
		// back edges leaving this block
		if !st.dead {
			for _, s := range b.Succs {
				if s.Dominates(b) {
					if l := fe.loopOf[s]; l != nil {
						fe.loopLatch(st, b, l)
					}
				}
			}
		}
	}
	fe.curBlock = nil
	// an `exits only` clause generates obligations only for offending returns; record that it is bound to a loop
	if !fe.dry && fe.contract != nil {
		for _, l := range fe.loops {
			if l.spec == nil {
				continue
			}
			for i := range l.spec.Exits {
				cl := &l.spec.Exits[i]
				props := cl.Props
				if props == nil {
					props = fe.contract.Props
				}
				fe.addObl(st0, fmt.Sprintf("loop%d.exit", l.ord), cl.Label+":clause-bound-to-a-loop", props, tTrue, fn.Pos())
			}
		}
	}
	// an assertion whose anchor matches no call of the function would be silently dropped: make it an
	// obligation that cannot be discharged instead (vacuity guard)
	if !fe.dry && fe.contract != nil {
		for i := range fe.contract.Asserts {
			if !fe.assertFired[i] && !fe.contract.Asserts[i].Forbid && !fe.contract.Asserts[i].Assume {
				as := &fe.contract.Asserts[i]
				o := fe.addObl(st0, "assert", as.Label+":anchor-matches-no-call", fe.propsFor(&as.Clause), tFalse, fn.Pos())
				if o != nil {
					o.Note = ""
				}
			}
		}
	}
}

func (fe *FnEnc) edgeCond(ps *State, from, to *ssa.BasicBlock) Term {
	if len(from.Instrs) == 0 {
		return tTrue
	}
	if iff, ok := from.Instrs[len(from.Instrs)-1].(*ssa.If); ok {
		c := fe.getT(ps, iff.Cond)
		if from.Succs[0] == to && from.Succs[1] == to {
			return tTrue
		}
		if from.Succs[0] == to {
			return c
		}
		return tNot(c)
	}
	return tTrue
}

func (fe *FnEnc) initEntry(st *State) {
	fn := fe.fn
	fe.entry = st
	alloc := fe.alloc(st)
	_ = alloc
	bind := func(name string, rv RV) {
		if name != "" && name != "_" {
			fe.params[name] = rv
		}
	}
	var hdrParams []string
	recvName := ""
	if fe.contract != nil {
		hdrParams = fe.contract.Params
		recvName = fe.contract.RecvName
	}
	pi := 0
	for i, p := range fn.Params {
		srt := fe.sorts.sortOf(p.Type())
		t := Term{q("p." + p.Name()), srt}
		fe.declConst(t.S, srt)
		rv := RV{T: t, Typ: p.Type(), Valid: true}
		fe.regs[p] = rv
		fe.assumeWF(st, p.Type(), t)
		bind(p.Name(), rv)
		isRecv := i == 0 && fn.Signature.Recv() != nil
		if isRecv {
			bind(recvName, rv)
			bind("recv", rv)
			if _, ok := p.Type().Underlying().(*types.Pointer); ok && (fe.contract == nil || !fe.contract.NilRecvOK) {
				fe.emit("(assert (not (= " + t.S + " 0)))")
			}
		} else {
			if pi < len(hdrParams) {
				bind(hdrParams[pi], rv)
			}
			pi++
		}
	}
	for _, fv := range fn.FreeVars {
		srt := fe.sorts.sortOf(fv.Type())
		t := Term{q("fv." + fv.Name()), srt}
		fe.declConst(t.S, srt)
		fe.emit("(assert (not (= " + t.S + " 0)))")
		rv := RV{T: t, Typ: fv.Type(), Valid: true}
		fe.regs[fv] = rv
		fe.assumeWF(st, fv.Type(), t)
	}
	// axioms of the package contract file
	fe.emitAxioms(st)
	// requires
	if fe.contract != nil && !fe.dry {
		env := fe.postEnv(st, nil)
		env.pre = true
		for i := range fe.contract.Requires {
			cl := &fe.contract.Requires[i]
			if cl.Invariant {
				fe.assumed["object invariant assumed on entry of "+fe.key+": "+cl.Label] = true
			}
			fe.assumeClause(st, "pre."+cl.Label, cl.E, env)
		}
		o := fe.addObl(st, "cover", "pre", []string{"C15"}, tFalse, fn.Pos())
		if o != nil {
			o.Cover = true
			o.Props = fe.contract.Props
		}
	}
}

// ---------------------------------------------------------------------
// loops

func (fe *FnEnc) loopLabel(l *Loop, cl *Clause, suffix string) string {
	return fmt.Sprintf("loop%d.inv:%s.%s", l.ord, cl.Label, suffix)
}

func (fe *FnEnc) loopHead(st *State, l *Loop) {
	if fe.dry {
		return
	}
	env := fe.loopEnv(st, l)
	ri := fe.rangeIndexOf(l)
	if ri != nil {
		// automatic invariant of every range-over-slice loop: the hidden index starts at -1 and only grows
		fe.addObl(st, fmt.Sprintf("loop%d.autoinv", l.ord), "rangeindex.init", []string{"C15"}, tCmp(">=", fe.cellVal(st, ri), tInt(-1)), l.header.Instrs[0].Pos())
	}
	if l.spec != nil {
		for i := range l.spec.Invs {
			cl := &l.spec.Invs[i]
			o := fe.addOblExpr(st, fmt.Sprintf("loop%d.inv", l.ord), cl.Label+".init", fe.propsFor(cl), cl.E, env, l.header.Instrs[0].Pos())
			if cl.Uses != nil {
				// establishing the invariant: the same-named facts of the earlier loops (and earlier cut points)
				o.Uses = []string{}
				for _, u := range append([]string{cl.Label}, cl.Uses...) {
					if strings.Contains(u, ":") || strings.HasPrefix(u, "assert.") || strings.HasPrefix(u, "assume.") || strings.HasPrefix(u, "call.") {
						o.Uses = append(o.Uses, resolveUses([]string{u}, 0, "")...)
						continue
					}
					for m := 1; m < l.ord; m++ {
						o.Uses = append(o.Uses, fmt.Sprintf("L%d.%s", m, u))
					}
				}
				o.Uses = append(o.Uses, resolveUses(cl.InitUses, 0, "")...)
			}
		}
	}
	// havoc what the body may write
	if l.writes.all {
		fe.havocAllKeepCells(st)
	}
	for _, a := range sortedAllocs(l.writes.cells) {
		if _, ok := st.cells[a]; ok || true {
			srt := fe.sorts.sortOf(a.Type().Underlying().(*types.Pointer).Elem())
			v := fe.fresh("h."+a.Comment, srt)
			st.cells[a] = v
			fe.assumeWF(st, a.Type().Underlying().(*types.Pointer).Elem(), v)
		}
	}
	for _, g := range sortedValues(l.writes.ghost) {
		if old, ok := st.ghost[g]; ok {
			st.ghost[g] = fe.fresh("hg", old.Sort)
		}
	}
	if s, ok := l.writes.comps["alloc"]; ok {
		fe.havocComp(st, "alloc", s)
	}
	for _, k := range sortedKeys(l.writes.comps) {
		if k != "alloc" {
			if t, ok := l.writes.types[k]; ok {
				fe.compT[k] = t
				fe.sorts.sortOf(t)
			}
			fe.havocComp(st, k, l.writes.comps[k])
		}
	}
	env = fe.loopEnv(st, l)
	if ri != nil {
		fe.assume(st, tCmp(">=", fe.cellVal(st, ri), tInt(-1)))
	}
	if l.spec != nil {
		for i := range l.spec.Invs {
			cl := &l.spec.Invs[i]
			fe.assumeClause(st, fmt.Sprintf("L%d.%s", l.ord, cl.Label), cl.E, env)
		}
		if l.spec.Decr != nil {
			v := fe.define("variant", fe.trVal(l.spec.Decr, env).T)
			l.variant = &v
		}
		o := fe.addObl(st, "cover", fmt.Sprintf("loop%d.head", l.ord), fe.propsFor(nil), tFalse, l.header.Instrs[0].Pos())
		if o != nil {
			o.Cover = true
		}
	}
	l.headSt = st.clone()
}

func (fe *FnEnc) havocAllKeepCells(st *State) {
	fe.havocAll(st)
}

func (fe *FnEnc) rangeIndexOf(l *Loop) *ssa.Alloc {
	for _, ins := range l.header.Instrs {
		if s, ok := ins.(*ssa.Store); ok {
			if a, ok := s.Addr.(*ssa.Alloc); ok && a.Comment == "rangeindex" {
				return a
			}
		}
	}
	return nil
}

func (fe *FnEnc) loopLatch(st *State, from *ssa.BasicBlock, l *Loop) {
	if fe.dry {
		return
	}
	ls := st.clone()
	ls.pc = tAnd(st.pc, fe.edgeCond(st, from, l.header))
	if ri := fe.rangeIndexOf(l); ri != nil {
		fe.addObl(ls, fmt.Sprintf("loop%d.autoinv", l.ord), "rangeindex.preserve", []string{"C15"}, tCmp(">=", fe.cellVal(ls, ri), tInt(-1)), from.Instrs[len(from.Instrs)-1].Pos())
	}
	if l.spec == nil {
		return
	}
	env := fe.loopEnv(ls, l)
	for i := range l.spec.Invs {
		cl := &l.spec.Invs[i]
		o := fe.addOblExpr(ls, fmt.Sprintf("loop%d.inv", l.ord), cl.Label+".preserve", fe.propsFor(cl), cl.E, env, from.Instrs[len(from.Instrs)-1].Pos())
		o.Uses = resolveUses(cl.Uses, l.ord, fmt.Sprintf("L%d.%s", l.ord, cl.Label))
	}
	if l.spec.Decr != nil && l.variant != nil {
		now := fe.trVal(l.spec.Decr, env).T
		g := tAnd(tCmp("<=", tInt(0), *l.variant), tCmp("<", now, *l.variant))
		fe.addObl(ls, fmt.Sprintf("loop%d.decreases", l.ord), "", fe.propsFor(nil), g, from.Instrs[len(from.Instrs)-1].Pos())
	}
}

// ---------------------------------------------------------------------
// instructions

func (fe *FnEnc) execBlock(st *State, b *ssa.BasicBlock) {
	for _, ins := range b.Instrs {
		if st.dead {
			return
		}
		fe.execInstr(st, ins)
	}
}

func (fe *FnEnc) setReg(v ssa.Value, rv RV) {
	rv.Valid = true
	if rv.Typ == nil {
		rv.Typ = v.Type()
	}
	if rv.A == nil && rv.Tuple == nil && rv.Iter == nil && rv.T.S != "" && len(rv.T.S) >= 40 && !fe.dry {
		rv.T = fe.define("r."+v.Name(), rv.T)
	}
	fe.regs[v] = rv
}

func (fe *FnEnc) execInstr(st *State, ins ssa.Instruction) {
	switch x := ins.(type) {
	case *ssa.DebugRef:
	case *ssa.Alloc:
		el := x.Type().Underlying().(*types.Pointer).Elem()
		if !x.Heap {
			// a fresh zero value each time the declaration executes
			fe.setCell(st, x, fe.sorts.zero(el))
			return
		}
		r := fe.newRef(st)
		switch {
		case structOf(el) != nil:
			a := &Addr{kind: aStruct, base: r, T: el}
			fe.store(st, a, fe.sorts.zero(el))
			fe.setReg(x, RV{A: a})
		default:
			if arr, ok := el.Underlying().(*types.Array); ok {
				// backing array for a slice: row r of the element heap
				es := fe.sorts.sortOf(arr.Elem())
				cn, cs := compElems(es), arrSort(sInt, arrSort(sInt, es))
				h := fe.getComp(st, cn, cs)
				z := fe.sorts.zero(arr.Elem())
				fe.setComp(st, cn, cs, tStore(h, r, Term{"((as const " + arrSort(sInt, es) + ") " + z.S + ")", arrSort(sInt, es)}))
				fe.regs[x] = RV{T: r, Typ: x.Type(), Valid: true, ArrObj: true}
				return
			}
			a := &Addr{kind: aCell, base: r, T: el}
			fe.store(st, a, fe.sorts.zero(el))
			fe.setReg(x, RV{A: a})
		}
	case *ssa.Store:
		av := fe.get(st, x.Addr)
		a := fe.derefAddr(st, av, x.Addr, x.Pos())
		if a == nil {
			return
		}
		if vv := fe.get(st, x.Val); vv.Clos != nil && a.kind == aLocal && len(a.path) == 0 {
			fe.cellClos[a.alloc] = vv.Clos
		}
		fe.store(st, a, fe.getT(st, x.Val))
	case *ssa.UnOp:
		fe.execUnOp(st, x)
	case *ssa.BinOp:
		fe.execBinOp(st, x)
	case *ssa.FieldAddr:
		base := fe.get(st, x.X)
		a := fe.derefAddr(st, base, x.X, x.Pos())
		if a == nil {
			fe.setReg(x, RV{T: fe.fresh("bad", sInt)})
			return
		}
		fe.setReg(x, RV{A: fe.fieldAddr(a, x.Field)})
	case *ssa.Field:
		v := fe.getT(st, x.X)
		fe.setReg(x, RV{T: fe.sorts.fieldSel(x.X.Type(), x.Field, v)})
	case *ssa.IndexAddr:
		fe.execIndexAddr(st, x)
	case *ssa.Index:
		v := fe.getT(st, x.X)
		i := fe.getT(st, x.Index)
		switch t := x.X.Type().Underlying().(type) {
		case *types.Array:
			fe.safety(st, "bounds", x.Pos(), tAnd(tCmp("<=", tInt(0), i), tCmp("<", i, tInt(t.Len()))))
			fe.setReg(x, RV{T: tSel(v, i)})
		default: // string
			fe.safety(st, "bounds", x.Pos(), tAnd(tCmp("<=", tInt(0), i), tCmp("<", i, Term{app("strlen", v), sInt})))
			fe.declFun("strat", []string{sStr, sInt}, sInt)
			r := Term{app("strat", v, i), sInt}
			fe.assume(st, tAnd(tCmp("<=", tInt(0), r), tCmp("<=", r, tInt(255))))
			fe.setReg(x, RV{T: r})
		}
	case *ssa.Slice:
		fe.execSlice(st, x)
	case *ssa.MakeSlice:
		ln := fe.getT(st, x.Len)
		cp := fe.getT(st, x.Cap)
		fe.safety(st, "neg", x.Pos(), tAnd(tCmp("<=", tInt(0), ln), tCmp("<=", ln, cp)))
		el := x.Type().Underlying().(*types.Slice).Elem()
		r := fe.newRef(st)
		es := fe.sorts.sortOf(el)
		cn, cs := compElems(es), arrSort(sInt, arrSort(sInt, es))
		fe.compT[cn] = el
		h := fe.getComp(st, cn, cs)
		z := fe.sorts.zero(el)
		fe.setComp(st, cn, cs, tStore(h, r, Term{"((as const " + arrSort(sInt, es) + ") " + z.S + ")", arrSort(sInt, es)}))
		fe.setReg(x, RV{T: mkSlice(r, tInt(0), ln, cp)})
	case *ssa.MakeMap:
		mt := x.Type().Underlying().(*types.Map)
		r := fe.newRef(st)
		ks, vs := fe.sorts.sortOf(mt.Key()), fe.sorts.sortOf(mt.Elem())
		dn, ds := compMapDom(ks, vs), arrSort(sInt, arrSort(ks, sBool))
		cn, cs := compMapCard(ks, vs), arrSort(sInt, sInt)
		fe.setComp(st, dn, ds, tStore(fe.getComp(st, dn, ds), r, Term{"((as const " + arrSort(ks, sBool) + ") false)", arrSort(ks, sBool)}))
		fe.setComp(st, cn, cs, tStore(fe.getComp(st, cn, cs), r, tInt(0)))
		fe.setReg(x, RV{T: r})
	case *ssa.MakeChan:
		fe.setReg(x, RV{T: fe.newRef(st)})
	case *ssa.MakeClosure:
		r := fe.newRef(st)
		ci := &ClosInfo{Fn: x.Fn.(*ssa.Function)}
		for _, b := range x.Bindings {
			ci.Bindings = append(ci.Bindings, fe.get(st, b))
		}
		fe.setReg(x, RV{T: r, Clos: ci})
	case *ssa.MakeInterface:
		fe.execMakeInterface(st, x)
	case *ssa.ChangeInterface:
		fe.setReg(x, RV{T: fe.getT(st, x.X)})
	case *ssa.ChangeType:
		rv := fe.get(st, x.X)
		fe.setReg(x, RV{T: fe.val(rv), Clos: rv.Clos})
	case *ssa.Convert:
		fe.execConvert(st, x)
	case *ssa.TypeAssert:
		fe.execTypeAssert(st, x)
	case *ssa.Lookup:
		fe.execLookup(st, x)
	case *ssa.MapUpdate:
		m := fe.getT(st, x.Map)
		fe.safety(st, "mapwrite", x.Pos(), tNot(tEq(m, tInt(0))))
		fe.mapUpdate(st, x.Map.Type().Underlying().(*types.Map), m, fe.getT(st, x.Key), fe.getT(st, x.Value))
	case *ssa.Range:
		fe.execRange(st, x)
	case *ssa.Next:
		fe.execNext(st, x)
	case *ssa.Extract:
		tv := fe.get(st, x.Tuple)
		if x.Index < len(tv.Tuple) {
			e := tv.Tuple[x.Index]
			e.Typ = x.Type()
			fe.setReg(x, e)
		} else {
			fe.unsupported("extract from non-tuple")
			fe.setReg(x, RV{T: fe.fresh("ext", fe.sorts.sortOf(x.Type()))})
		}
	case *ssa.Call:
		fe.execCall(st, x, x.Common(), x)
	case *ssa.Defer:
		var args []RV
		for _, a := range x.Call.Args {
			args = append(args, fe.get(st, a))
		}
		if x.Call.IsInvoke() || true {
			args = append([]RV{fe.get(st, x.Call.Value)}, args...)
		}
		fe.deferArgs[x] = args
		fe.setGhost(st, deferKey{x}, tTrue)
	case *ssa.RunDefers:
		fe.runDefers(st, x)
	case *ssa.Go:
		// arguments are evaluated, the spawned call is not part of this call's sequential behaviour;
		// the preconditions of a spawned function under contract are checked where it is spawned
		if callee := x.Call.StaticCallee(); callee != nil {
			if o := callee.Origin(); o != nil {
				callee = o
			}
			// ghost: how often this call spawned the function (spawned(Key) in contracts)
			skey := callee.Name()
			if r := callee.Signature.Recv(); r != nil {
				skey = recvTypeName(r.Type()) + "." + callee.Name()
			}
			cn := "SPAWN." + skey
			fe.setComp(st, cn, sInt, tArith("+", fe.getComp(st, cn, sInt), tInt(1)))
			if fc := fe.c.contractFor(callee); fc != nil && !fe.dry {
				fe.goPreconditions(st, x, fc, callee)
			}
		}
		fe.assumed["go statement: spawned goroutine not modelled ("+x.Call.Value.Name()+")"] = true
	case *ssa.Select:
		var tup []RV
		tup = append(tup, RV{T: fe.fresh("sel.idx", sInt), Valid: true})
		tup = append(tup, RV{T: fe.fresh("sel.ok", sBool), Valid: true})
		for _, s := range x.States {
			if s.Dir == types.RecvOnly {
				el := s.Chan.Type().Underlying().(*types.Chan).Elem()
				v := fe.fresh("sel.recv", fe.sorts.sortOf(el))
				fe.assumeWF(st, el, v)
				tup = append(tup, RV{T: v, Valid: true})
			}
		}
		fe.assumed["select/channel operations: unconstrained outcome"] = true
		fe.setReg(x, RV{Tuple: tup})
	case *ssa.Send:
		fe.assumed["select/channel operations: unconstrained outcome"] = true
	case *ssa.If, *ssa.Jump:
	case *ssa.Return:
		fe.execReturn(st, x)
		st.dead = true
	case *ssa.Panic:
		if fe.sweep && !fe.dry {
			fe.addObl(st, "panic", fe.srcText(x.Pos(), "nil"), []string{"C15"}, tFalse, x.Pos())
		}
		st.dead = true
	case *ssa.Phi:
		fe.unsupported("phi node")
		fe.setReg(x, RV{T: fe.fresh("phi", fe.sorts.sortOf(x.Type()))})
	default:
		fe.unsupported("instruction %T", ins)
		if v, ok := ins.(ssa.Value); ok {
			fe.setReg(v, RV{T: fe.fresh("unk", fe.sorts.sortOf(v.Type()))})
		}
	}
}

// countKey: ghost iteration counter of a map range
type countKey struct{ r *ssa.Range }

func (countKey) Name() string                  { return "count" }
func (countKey) String() string                { return "count" }
func (countKey) Type() types.Type              { return nil }
func (countKey) Parent() *ssa.Function         { return nil }
func (countKey) Referrers() *[]ssa.Instruction { return nil }
func (countKey) Pos() token.Pos                { return token.NoPos }

type deferKey struct{ d *ssa.Defer }

func (deferKey) Name() string                  { return "defer" }
func (deferKey) String() string                { return "defer" }
func (deferKey) Type() types.Type              { return nil }
func (deferKey) Parent() *ssa.Function         { return nil }
func (deferKey) Referrers() *[]ssa.Instruction { return nil }
func (deferKey) Pos() token.Pos                { return token.NoPos }

// derefAddr produces the address a pointer value refers to, with a nil check for dynamic pointers.
func (fe *FnEnc) derefAddr(st *State, rv RV, v ssa.Value, pos token.Pos) *Addr {
	if rv.A != nil {
		return rv.A
	}
	if rv.ArrObj {
		fe.unsupported("whole-array access through pointer")
		return nil
	}
	pt, ok := v.Type().Underlying().(*types.Pointer)
	if !ok {
		fe.unsupported("deref of non-pointer %s", v.Type())
		return nil
	}
	fe.safety(st, "nil", pos, tNot(tEq(rv.T, tInt(0))))
	_ = pt
	return fe.addrOf(rv, v.Type())
}

func (fe *FnEnc) fieldAddr(a *Addr, f int) *Addr {
	switch a.kind {
	case aStruct:
		ft := structOf(a.T).Field(f).Type()
		if structOf(ft) != nil {
			return &Addr{kind: aStruct, base: fe.subAddr(a.T, f, a.base), T: ft}
		}
		return &Addr{kind: aField, base: a.base, T: a.T, fld: f}
	default:
		n := *a
		cur := a.T
		if a.kind == aField {
			cur = structOf(a.T).Field(a.fld).Type()
		}
		ct := pathType(cur, a.path)
		n.path = append(append([]pathEl{}, a.path...), pathEl{field: f, T: ct})
		return &n
	}
}

func (fe *FnEnc) execIndexAddr(st *State, x *ssa.IndexAddr) {
	i := fe.getT(st, x.Index)
	switch t := x.X.Type().Underlying().(type) {
	case *types.Slice:
		s := fe.getT(st, x.X)
		fe.safety(st, "bounds", x.Pos(), tAnd(tCmp("<=", tInt(0), i), tCmp("<", i, slLen(s))))
		ii, ss := i, s
		fe.setReg(x, RV{A: &Addr{kind: aElem, base: slArr(s), pos: tArith("+", slOff(s), i), T: t.Elem(), sl: &ss, idx: &ii}})
	case *types.Pointer: // pointer to array
		arr := t.Elem().Underlying().(*types.Array)
		fe.safety(st, "bounds", x.Pos(), tAnd(tCmp("<=", tInt(0), i), tCmp("<", i, tInt(arr.Len()))))
		rv := fe.get(st, x.X)
		if rv.ArrObj { // heap array object
			fe.setReg(x, RV{A: &Addr{kind: aElem, base: rv.T, pos: i, T: arr.Elem()}})
			return
		}
		a := fe.derefAddr(st, rv, x.X, x.Pos())
		if a == nil {
			fe.setReg(x, RV{T: fe.fresh("bad", sInt)})
			return
		}
		n := *a
		cur := a.T
		if a.kind == aField {
			cur = structOf(a.T).Field(a.fld).Type()
		}
		ct := pathType(cur, a.path)
		ii := i
		n.path = append(append([]pathEl{}, a.path...), pathEl{field: -1, idx: &ii, T: ct})
		fe.setReg(x, RV{A: &n})
	default:
		fe.unsupported("indexaddr on %s", x.X.Type())
		fe.setReg(x, RV{T: fe.fresh("bad", sInt)})
	}
}

func (fe *FnEnc) execSlice(st *State, x *ssa.Slice) {
	var lo, hi, mx *Term
	if x.Low != nil {
		t := fe.getT(st, x.Low)
		lo = &t
	}
	if x.High != nil {
		t := fe.getT(st, x.High)
		hi = &t
	}
	if x.Max != nil {
		t := fe.getT(st, x.Max)
		mx = &t
	}
	zero := tInt(0)
	switch t := x.X.Type().Underlying().(type) {
	case *types.Slice:
		s := fe.getT(st, x.X)
		l, h, m := zero, slLen(s), slCap(s)
		if lo != nil {
			l = *lo
		}
		if hi != nil {
			h = *hi
		}
		if mx != nil {
			m = *mx
		}
		fe.safety(st, "bounds", x.Pos(), tAnd(tCmp("<=", zero, l), tCmp("<=", l, h), tCmp("<=", h, m), tCmp("<=", m, slCap(s))))
		fe.setReg(x, RV{T: mkSlice(slArr(s), tArith("+", slOff(s), l), tArith("-", h, l), tArith("-", m, l))})
	case *types.Basic: // string
		s := fe.getT(st, x.X)
		ln := Term{app("strlen", s), sInt}
		l, h := zero, ln
		if lo != nil {
			l = *lo
		}
		if hi != nil {
			h = *hi
		}
		fe.safety(st, "bounds", x.Pos(), tAnd(tCmp("<=", zero, l), tCmp("<=", l, h), tCmp("<=", h, ln)))
		r := Term{app("substr", s, l, h), sStr}
		fe.assume(st, tEq(Term{app("strlen", r), sInt}, tArith("-", h, l)))
		fe.setReg(x, RV{T: r})
	case *types.Pointer: // pointer to array
		arr := t.Elem().Underlying().(*types.Array)
		n := tInt(arr.Len())
		l, h, m := zero, n, n
		if lo != nil {
			l = *lo
		}
		if hi != nil {
			h = *hi
		}
		if mx != nil {
			m = *mx
		}
		fe.safety(st, "bounds", x.Pos(), tAnd(tCmp("<=", zero, l), tCmp("<=", l, h), tCmp("<=", h, m), tCmp("<=", m, n)))
		rv := fe.get(st, x.X)
		if rv.ArrObj {
			fe.setReg(x, RV{T: mkSlice(rv.T, l, tArith("-", h, l), tArith("-", m, l))})
			return
		}
		fe.unsupported("slice of non-heap array")
		fe.setReg(x, RV{T: fe.fresh("sl", sSlice)})
	default:
		fe.unsupported("slice of %s", x.X.Type())
		fe.setReg(x, RV{T: fe.fresh("sl", sSlice)})
	}
}

func (fe *FnEnc) execUnOp(st *State, x *ssa.UnOp) {
	switch x.Op {
	case token.MUL: // load
		if fv, ok := x.X.(*ssa.FreeVar); ok && !fe.fvStored(fv) {
			// a captured variable this closure never assigns: its value is fixed for the whole call
			if v, ok := fe.fvVals[fv]; ok {
				fe.setReg(x, v)
				return
			}
			a := fe.addrOf(fe.get(st, fv), fv.Type())
			ent := fe.entrySnap()
			v := fe.load(ent, a)
			if !fe.dry {
				v = fe.define("fv."+fv.Name(), v)
				fe.assumeWF(st, x.Type(), v)
			}
			rv := RV{T: v, Typ: x.Type(), Valid: true}
			fe.fvVals[fv] = rv
			fe.setReg(x, rv)
			return
		}
		av := fe.get(st, x.X)
		a := fe.derefAddr(st, av, x.X, x.Pos())
		if a == nil {
			fe.setReg(x, RV{T: fe.fresh("bad", fe.sorts.sortOf(x.Type()))})
			return
		}
		v := fe.load(st, a)
		rv := RV{T: v}
		if a.kind == aLocal && len(a.path) == 0 {
			// keep closure info for function values held in locals
			if ci, ok := fe.cellClos[a.alloc]; ok {
				rv.Clos = ci
			}
		}
		if a.kind != aLocal {
			if !fe.dry {
				v = fe.define("ld", v)
				rv.T = v
				fe.assumeWF(st, x.Type(), v)
			}
		}
		fe.setReg(x, rv)
	case token.NOT:
		fe.setReg(x, RV{T: tNot(fe.getT(st, x.X))})
	case token.SUB:
		v := fe.getT(st, x.X)
		fe.setReg(x, RV{T: Term{"(- " + v.S + ")", v.Sort}})
	case token.ARROW:
		el := x.X.Type().Underlying().(*types.Chan).Elem()
		v := fe.fresh("recv", fe.sorts.sortOf(el))
		fe.assumeWF(st, el, v)
		fe.assumed["select/channel operations: unconstrained outcome"] = true
		if x.CommaOk {
			fe.setReg(x, RV{Tuple: []RV{{T: v, Valid: true}, {T: fe.fresh("recv.ok", sBool), Valid: true}}})
		} else {
			fe.setReg(x, RV{T: v})
		}
	case token.XOR:
		fe.declFun("bitnot", []string{sInt}, sInt)
		fe.setReg(x, RV{T: Term{app("bitnot", fe.getT(st, x.X)), sInt}})
	default:
		fe.unsupported("unop %s", x.Op)
		fe.setReg(x, RV{T: fe.fresh("unop", fe.sorts.sortOf(x.Type()))})
	}
}

func isNilConst(v ssa.Value) bool {
	c, ok := v.(*ssa.Const)
	return ok && c.Value == nil
}

func (fe *FnEnc) execBinOp(st *State, x *ssa.BinOp) {
	a := fe.getT(st, x.X)
	b := fe.getT(st, x.Y)
	xt := x.X.Type().Underlying()
	cmpEq := func() Term {
		// comparison with nil for slices compares the backing array only
		if _, ok := xt.(*types.Slice); ok {
			if isNilConst(x.Y) {
				return tEq(slArr(a), tInt(0))
			}
			if isNilConst(x.X) {
				return tEq(slArr(b), tInt(0))
			}
		}
		if a.Sort != b.Sort {
			// interface compared with a concrete value etc.
			fe.unsupported("comparison of %s and %s", a.Sort, b.Sort)
			return fe.fresh("cmp", sBool)
		}
		return tEq(a, b)
	}
	isStr := a.Sort == sStr
	ord := func(t Term) Term { return Term{app("strord", t), sReal} }
	var r Term
	switch x.Op {
	case token.EQL:
		r = cmpEq()
	case token.NEQ:
		r = tNot(cmpEq())
	case token.LSS, token.LEQ, token.GTR, token.GEQ:
		op := map[token.Token]string{token.LSS: "<", token.LEQ: "<=", token.GTR: ">", token.GEQ: ">="}[x.Op]
		if isStr {
			r = tCmp(op, ord(a), ord(b))
		} else {
			r = tCmp(op, a, b)
		}
	case token.ADD:
		if isStr {
			r = Term{app("strcat", a, b), sStr}
			if !fe.dry {
				r = fe.define("cat", r)
				fe.emit("(assert (= (strlen " + r.S + ") (+ (strlen " + a.S + ") (strlen " + b.S + "))))")
			}
		} else {
			r = tArith("+", a, b)
		}
	case token.SUB:
		r = tArith("-", a, b)
	case token.MUL:
		r = tArith("*", a, b)
	case token.QUO:
		if a.Sort == sReal {
			r = tArith("/", a, b)
		} else {
			fe.safety(st, "div", x.Pos(), tNot(tEq(b, tInt(0))))
			// Go truncates toward zero
			fe.declFun("godiv", []string{sInt, sInt}, sInt)
			r = Term{app("godiv", a, b), sInt}
			if !fe.dry {
				r = fe.define("div", r)
				fe.emit(fmt.Sprintf("(assert (=> (and (>= %s 0) (> %s 0)) (= %s (div %s %s))))", a.S, b.S, r.S, a.S, b.S))
			}
		}
	case token.REM:
		fe.safety(st, "div", x.Pos(), tNot(tEq(b, tInt(0))))
		fe.declFun("gorem", []string{sInt, sInt}, sInt)
		r = Term{app("gorem", a, b), sInt}
		if !fe.dry {
			r = fe.define("rem", r)
			fe.emit(fmt.Sprintf("(assert (=> (and (>= %s 0) (> %s 0)) (= %s (mod %s %s))))", a.S, b.S, r.S, a.S, b.S))
		}
	case token.AND, token.OR, token.XOR, token.SHL, token.SHR, token.AND_NOT:
		if a.Sort == sBool {
			switch x.Op {
			case token.AND:
				r = tAnd(a, b)
			case token.OR:
				r = tOr(a, b)
			default:
				r = tNot(tEq(a, b))
			}
		} else {
			fn := "bitop." + x.Op.String()
			fe.declFun(q(fn), []string{sInt, sInt}, sInt)
			r = Term{app(q(fn), a, b), sInt}
		}
	default:
		fe.unsupported("binop %s", x.Op)
		r = fe.fresh("binop", fe.sorts.sortOf(x.Type()))
	}
	fe.setReg(x, RV{T: r})
}

func (fe *FnEnc) execMakeInterface(st *State, x *ssa.MakeInterface) {
	rv := fe.get(st, x.X)
	t := x.X.Type()
	tid := fe.sorts.typeID(t)
	switch t.Underlying().(type) {
	case *types.Pointer, *types.Map, *types.Chan, *types.Signature:
		fe.setReg(x, RV{T: mkIface(tid, fe.val(rv))})
		return
	}
	// box the value
	r := fe.newRef(st)
	vs := fe.sorts.sortOf(t)
	cn, cs := "box."+stripQ(vs), arrSort(sInt, vs)
	fe.compT[cn] = t
	fe.setComp(st, cn, cs, tStore(fe.getComp(st, cn, cs), r, fe.val(rv)))
	fe.setReg(x, RV{T: mkIface(tid, r)})
}

func (fe *FnEnc) execConvert(st *State, x *ssa.Convert) {
	v := fe.getT(st, x.X)
	from := fe.sorts.sortOf(x.X.Type())
	to := fe.sorts.sortOf(x.Type())
	switch {
	case from == to && from != sSlice:
		// integer narrowing is not tracked (mathematical integers); widening is the identity
		fe.setReg(x, RV{T: v})
	case from == sInt && to == sReal:
		fe.setReg(x, RV{T: Term{app("to_real", v), sReal}})
	case from == sReal && to == sInt:
		fe.declFun("f2i", []string{sReal}, sInt)
		r := Term{app("f2i", v), sInt}
		if !fe.dry {
			r = fe.define("f2i", r)
			// truncation toward zero for non-negative values
			fe.emit(fmt.Sprintf("(assert (=> (>= %s 0.0) (and (<= (to_real %s) %s) (< %s (+ (to_real %s) 1.0)))))", v.S, r.S, v.S, v.S, r.S))
		}
		fe.setReg(x, RV{T: r})
	case from == sSlice && to == sStr:
		es := fe.sorts.sortOf(x.X.Type().Underlying().(*types.Slice).Elem())
		h := fe.getComp(st, compElems(es), arrSort(sInt, arrSort(sInt, es)))
		fn := q("bytes2str." + stripQ(es))
		fe.declFun(fn, []string{arrSort(sInt, es), sInt, sInt}, sStr)
		r := Term{app(fn, tSel(h, slArr(v)), slOff(v), slLen(v)), sStr}
		if !fe.dry {
			r = fe.define("b2s", r)
			fe.emit("(assert (= (strlen " + r.S + ") " + slLen(v).S + "))")
		}
		fe.setReg(x, RV{T: r})
	case from == sStr && to == sSlice:
		r := fe.newRef(st)
		el := x.Type().Underlying().(*types.Slice).Elem()
		es := fe.sorts.sortOf(el)
		cn, cs := compElems(es), arrSort(sInt, arrSort(sInt, es))
		fn := q("str2bytes." + stripQ(es))
		fe.declFun(fn, []string{sStr}, arrSort(sInt, es))
		fe.setComp(st, cn, cs, tStore(fe.getComp(st, cn, cs), r, Term{app(fn, v), arrSort(sInt, es)}))
		ln := Term{app("strlen", v), sInt}
		fe.setReg(x, RV{T: mkSlice(r, tInt(0), ln, ln)})
	case from == sInt && to == sStr:
		fe.declFun("rune2str", []string{sInt}, sStr)
		fe.setReg(x, RV{T: Term{app("rune2str", v), sStr}})
	case from == sSlice && to == sSlice:
		fe.setReg(x, RV{T: v})
	default:
		fe.unsupported("convert %s -> %s", x.X.Type(), x.Type())
		fe.setReg(x, RV{T: fe.fresh("conv", to)})
	}
}

func (fe *FnEnc) execTypeAssert(st *State, x *ssa.TypeAssert) {
	v := fe.getT(st, x.X)
	at := x.AssertedType
	var ok Term
	var res Term
	if _, isIface := at.Underlying().(*types.Interface); isIface {
		// assertion to an interface type: succeeds for some dynamic types; unknown which
		fn := q("implements." + typeKey(at))
		fe.declFun(fn, []string{sInt}, sBool)
		ok = tAnd(tNot(tEq(ifTyp(v), tInt(0))), Term{app(fn, ifTyp(v)), sBool})
		res = v
	} else {
		ok = tEq(ifTyp(v), fe.sorts.typeID(at))
		switch at.Underlying().(type) {
		case *types.Pointer, *types.Map, *types.Chan, *types.Signature:
			res = ifVal(v)
		default:
			vs := fe.sorts.sortOf(at)
			cn, cs := "box."+stripQ(vs), arrSort(sInt, vs)
			res = tSel(fe.getComp(st, cn, cs), ifVal(v))
		}
	}
	if x.CommaOk {
		okc := ok
		if !fe.dry {
			okc = fe.define("ta.ok", ok)
		}
		zero := fe.sorts.zero(at)
		fe.setReg(x, RV{Tuple: []RV{{T: tIte(okc, res, zero), Valid: true, Typ: at}, {T: okc, Valid: true}}})
		return
	}
	fe.safety(st, "assert", x.Pos(), ok)
	fe.setReg(x, RV{T: res})
}

// ---------------------------------------------------------------------
// maps

func (fe *FnEnc) mapComps(st *State, mt *types.Map, old bool) (dom, val, card Term, ks, vs string) {
	ks, vs = fe.sorts.sortOf(mt.Key()), fe.sorts.sortOf(mt.Elem())
	fe.compT[compMapVal(ks, vs)] = mt.Elem()
	get := func(n, s string) Term {
		if old {
			return fe.oldComp(n, s)
		}
		return fe.getComp(st, n, s)
	}
	dom = get(compMapDom(ks, vs), arrSort(sInt, arrSort(ks, sBool)))
	val = get(compMapVal(ks, vs), arrSort(sInt, arrSort(ks, vs)))
	card = get(compMapCard(ks, vs), arrSort(sInt, sInt))
	return
}

func (fe *FnEnc) mapHas(st *State, mt *types.Map, m, k Term, old bool) Term {
	dom, _, _, _, _ := fe.mapComps(st, mt, old)
	return tAnd(tNot(tEq(m, tInt(0))), tSel(tSel(dom, m), k))
}

func (fe *FnEnc) mapGet(st *State, mt *types.Map, m, k Term, old bool) Term {
	_, val, _, _, _ := fe.mapComps(st, mt, old)
	return tIte(fe.mapHas(st, mt, m, k, old), tSel(tSel(val, m), k), fe.sorts.zero(mt.Elem()))
}

func (fe *FnEnc) mapLen(st *State, mt *types.Map, m Term, old bool) Term {
	dom, _, card, ks, _ := fe.mapComps(st, mt, old)
	c := tSel(card, m)
	if !fe.dry {
		fe.emit("(assert (>= " + c.S + " 0))")
		if ks == sStr {
			for _, ln := range sortedKeys(fe.lits) {
				fe.emit(fmt.Sprintf("(assert (=> (select (select %s %s) %s) (>= %s 1)))", dom.S, m.S, ln, c.S))
			}
		}
	}
	return tIte(tEq(m, tInt(0)), tInt(0), c)
}

func (fe *FnEnc) mapUpdate(st *State, mt *types.Map, m, k, v Term) {
	dom, val, card, ks, vs := fe.mapComps(st, mt, false)
	had := tSel(tSel(dom, m), k)
	fe.setComp(st, compMapCard(ks, vs), card.Sort, tStore(card, m, tIte(had, tSel(card, m), tArith("+", tSel(card, m), tInt(1)))))
	fe.setComp(st, compMapDom(ks, vs), dom.Sort, tStore(dom, m, tStore(tSel(dom, m), k, tTrue)))
	fe.setComp(st, compMapVal(ks, vs), val.Sort, tStore(val, m, tStore(tSel(val, m), k, v)))
}

func (fe *FnEnc) mapDelete(st *State, mt *types.Map, m, k Term) {
	dom, _, card, ks, vs := fe.mapComps(st, mt, false)
	had := tSel(tSel(dom, m), k)
	isNil := tEq(m, tInt(0))
	fe.setComp(st, compMapCard(ks, vs), card.Sort, tIte(isNil, card, tStore(card, m, tIte(had, tArith("-", tSel(card, m), tInt(1)), tSel(card, m)))))
	fe.setComp(st, compMapDom(ks, vs), dom.Sort, tIte(isNil, dom, tStore(dom, m, tStore(tSel(dom, m), k, tFalse))))
}

func (fe *FnEnc) execLookup(st *State, x *ssa.Lookup) {
	switch t := x.X.Type().Underlying().(type) {
	case *types.Map:
		m := fe.getT(st, x.X)
		k := fe.getT(st, x.Index)
		has := fe.mapHas(st, t, m, k, false)
		v := fe.mapGet(st, t, m, k, false)
		if !fe.dry {
			v = fe.define("mv", v)
			fe.assumeWF(st, t.Elem(), v)
		}
		if x.CommaOk {
			fe.setReg(x, RV{Tuple: []RV{{T: v, Valid: true, Typ: t.Elem()}, {T: has, Valid: true}}})
		} else {
			fe.setReg(x, RV{T: v})
		}
	default: // string index
		s := fe.getT(st, x.X)
		i := fe.getT(st, x.Index)
		fe.safety(st, "bounds", x.Pos(), tAnd(tCmp("<=", tInt(0), i), tCmp("<", i, Term{app("strlen", s), sInt})))
		fe.declFun("strat", []string{sStr, sInt}, sInt)
		fe.setReg(x, RV{T: Term{app("strat", s, i), sInt}})
	}
}

func (fe *FnEnc) execRange(st *State, x *ssa.Range) {
	switch t := x.X.Type().Underlying().(type) {
	case *types.Map:
		m := fe.getT(st, x.X)
		ks := fe.sorts.sortOf(t.Key())
		fe.setGhost(st, x, Term{"((as const " + arrSort(ks, sBool) + ") false)", arrSort(ks, sBool)})
		fe.setGhost(st, countKey{x}, tInt(0))
		fe.setReg(x, RV{Iter: &IterInfo{rng: x, m: m, mapT: t}})
	default:
		fe.unsupported("range over string")
		fe.setReg(x, RV{Iter: &IterInfo{rng: x, str: true}})
	}
}

func (fe *FnEnc) execNext(st *State, x *ssa.Next) {
	it := fe.get(st, x.Iter).Iter
	if it == nil || it.str || it.mapT == nil {
		tt := x.Type().(*types.Tuple)
		var tup []RV
		for i := 0; i < tt.Len(); i++ {
			tup = append(tup, RV{T: fe.fresh("next", fe.sorts.sortOf(tt.At(i).Type())), Valid: true})
		}
		fe.setReg(x, RV{Tuple: tup})
		return
	}
	mt := it.mapT
	ks := fe.sorts.sortOf(mt.Key())
	ok := fe.fresh("next.ok", sBool)
	k := fe.fresh("next.k", ks)
	vis := st.ghost[it.rng]
	has := fe.mapHas(st, mt, it.m, k, false)
	if !fe.dry {
		fe.assume(st, tImp(ok, tAnd(has, tNot(tSel(vis, k)))))
		dom, _, _, _, _ := fe.mapComps(st, mt, false)
		all := fmt.Sprintf("(forall ((kk %s)) (! (=> (select (select %s %s) kk) (select %s kk)) :pattern ((select (select %s %s) kk)) :pattern ((select %s kk))))",
			ks, dom.S, it.m.S, vis.S, dom.S, it.m.S, vis.S)
		fe.assume(st, tImp(tNot(ok), tOr(tEq(it.m, tInt(0)), Term{all, sBool})))
	}
	v := fe.mapGet(st, mt, it.m, k, false)
	if !fe.dry {
		v = fe.define("next.v", v)
		fe.assumeWF(st, mt.Elem(), v)
		fe.assumeWF(st, mt.Key(), k)
	}
	fe.setGhost(st, it.rng, tIte(ok, tStore(vis, k, tTrue), vis))
	if cnt, okc := st.ghost[countKey{it.rng}]; okc {
		// number of iterations so far; when the loop does not change the map's key set, it ends after len(m) iterations
		if !fe.dry {
			modifiesDom := false
			dn := compMapDom(ks, fe.sorts.sortOf(mt.Elem()))
			for _, l := range fe.loops {
				if l.blocks[x.Block()] {
					if _, w := l.writes.comps[dn]; w || l.writes.all {
						modifiesDom = true
					}
				}
			}
			if !modifiesDom {
				_, _, card, _, _ := fe.mapComps(st, mt, false)
				fe.assume(st, tImp(tNot(ok), tEq(cnt, tIte(tEq(it.m, tInt(0)), tInt(0), tSel(card, it.m)))))
				fe.assume(st, tImp(ok, tCmp("<", cnt, tSel(card, it.m))))
			}
		}
		fe.setGhost(st, countKey{it.rng}, tIte(ok, tArith("+", cnt, tInt(1)), cnt))
	}
	fe.assumed["map iteration visits every key present when the loop ends (no insertion during iteration)"] = true
	fe.setReg(x, RV{Tuple: []RV{{T: ok, Valid: true}, {T: k, Valid: true, Typ: mt.Key()}, {T: v, Valid: true, Typ: mt.Elem()}}})
}

// ---------------------------------------------------------------------
// return and defers

func (fe *FnEnc) execReturn(st *State, x *ssa.Return) {
	if fe.dry {
		return
	}
	// returns inside a loop with an `exits only` clause
	for _, l := range fe.loops {
		if l.spec == nil || len(l.spec.Exits) == 0 || !fe.insideLoopStmt(l, x.Pos()) {
			continue
		}
		for i := range l.spec.Exits {
			cl := &l.spec.Exits[i]
			if txt := fe.srcText(x.Pos(), "return"); !strings.Contains(txt, cl.Src) {
				props := cl.Props
				if props == nil {
					props = fe.contract.Props
				}
				fe.addObl(st, fmt.Sprintf("loop%d.exit", l.ord), cl.Label+":"+txt, props, tNot(st.pc), x.Pos())
			}
		}
	}
	var rets []RV
	for _, r := range x.Results {
		rv := fe.get(st, r)
		rv.T = fe.val(rv)
		rv.A = nil
		rv.Typ = r.Type()
		rets = append(rets, rv)
	}
	if fe.contract != nil {
		env := fe.postEnv(st, rets)
		for i := range fe.contract.Ensures {
			cl := &fe.contract.Ensures[i]
			o := fe.addOblExpr(st, "post", cl.Label, fe.propsFor(cl), cl.E, env, x.Pos())
			o.Uses = resolveUses(cl.Uses, 0, "")
		}
	}
	// held-lock discipline: nothing taken by this call is still held (sequential)
}

func (fe *FnEnc) runDefers(st *State, x *ssa.RunDefers) {
	for i := len(fe.defers) - 1; i >= 0; i-- {
		d := fe.defers[i]
		flag, ok := st.ghost[deferKey{d}]
		if !ok {
			continue // never pushed on any path reaching here
		}
		if flag.S == "false" {
			continue
		}
		args := fe.deferArgs[d]
		if flag.S == "true" {
			fe.execDeferred(st, d, args)
			continue
		}
		// conditional execution: run on a copy and merge
		yes := st.clone()
		yes.pc = fe.namePC(tAnd(st.pc, flag))
		fe.execDeferred(yes, d, args)
		no := st.clone()
		no.pc = fe.namePC(tAnd(st.pc, tNot(flag)))
		var es []edge
		if !yes.dead {
			es = append(es, edge{nil, yes, tTrue})
		}
		es = append(es, edge{nil, no, tTrue})
		m := fe.merge(es)
		*st = *m
	}
}

func (fe *FnEnc) execDeferred(st *State, d *ssa.Defer, args []RV) {
	fe.callWithArgs(st, d, &d.Call, args[0], args[1:], nil)
}

// deterministic iteration orders (the emitted script must not depend on Go's map order)
func valueOrder(v ssa.Value) string {
	if dk, ok := v.(deferKey); ok {
		return fmt.Sprintf("d%09d", int(dk.d.Pos()))
	}
	if ck, ok := v.(countKey); ok {
		return valueOrder(ck.r) + "c"
	}
	n := v.Name()
	if len(n) > 1 && n[0] == 't' {
		var k int
		if _, err := fmt.Sscanf(n[1:], "%d", &k); err == nil {
			return fmt.Sprintf("t%09d", k)
		}
	}
	return "z" + n
}

func sortedAllocs(m map[*ssa.Alloc]bool) []*ssa.Alloc {
	out := make([]*ssa.Alloc, 0, len(m))
	for a := range m {
		out = append(out, a)
	}
	sort.Slice(out, func(i, j int) bool { return valueOrder(out[i]) < valueOrder(out[j]) })
	return out
}

func sortedValues(m map[ssa.Value]bool) []ssa.Value {
	out := make([]ssa.Value, 0, len(m))
	for a := range m {
		out = append(out, a)
	}
	sort.Slice(out, func(i, j int) bool { return valueOrder(out[i]) < valueOrder(out[j]) })
	return out
}

// smallBlock: straight-line code without calls (safe to execute once per predecessor)
func smallBlock(b *ssa.BasicBlock) bool {
	if len(b.Instrs) > 12 {
		return false
	}
	for _, ins := range b.Instrs {
		switch ins.(type) {
		case *ssa.Call, *ssa.Defer, *ssa.RunDefers, *ssa.Go, *ssa.Alloc, *ssa.MakeMap, *ssa.MakeSlice, *ssa.MakeClosure, *ssa.MakeInterface:
			return false
		}
	}
	return true
}

func (fe *FnEnc) fvStored(fv *ssa.FreeVar) bool {
	for _, ref := range *fv.Referrers() {
		switch r := ref.(type) {
		case *ssa.Store:
			if r.Addr == ssa.Value(fv) {
				return true
			}
		case *ssa.UnOp, *ssa.DebugRef:
		default:
			return true // passed on: someone else may write it
		}
	}
	return false
}

// insideLoopStmt: is the position lexically inside the for/range statement of the loop?  (A return statement inside a
// loop body is not part of the natural loop of the control flow graph, so the block sets cannot answer this.)
func (fe *FnEnc) insideLoopStmt(l *Loop, pos token.Pos) bool {
	f := fe.astFile(l.minPos)
	if f == nil || !pos.IsValid() {
		return false
	}
	path, _ := astutil.PathEnclosingInterval(f, l.minPos, l.minPos)
	for _, n := range path {
		switch n.(type) {
		case *ast.ForStmt, *ast.RangeStmt:
			return n.Pos() <= pos && pos < n.End()
		}
	}
	return false
}

package main

import (
	"fmt"
	"go/token"
	"go/types"
	"net/textproto"
	"strings"

	"golang.org/x/tools/go/ssa"
)

// effectFn models one external function: it may update the state and returns the results
// (nil: unconstrained, well-formed results).
type effectFn func(fe *FnEnc, st *State, callee *ssa.Function, args []RV, pos token.Pos) []RV

var effects map[string]effectFn

func one(t Term) []RV { return []RV{{T: t, Valid: true}} }

// uf applies an uninterpreted function of the (value) arguments: deterministic external functions.
func ufEffect(name string, ret string) effectFn {
	return func(fe *FnEnc, st *State, callee *ssa.Function, args []RV, pos token.Pos) []RV {
		var ts []Term
		var ss []string
		for _, a := range args {
			t := fe.val(a)
			ts = append(ts, t)
			ss = append(ss, t.Sort)
		}
		fe.declFun(q(name), ss, ret)
		if len(ts) == 0 {
			return one(Term{q(name), ret})
		}
		return one(Term{app(q(name), ts...), ret})
	}
}

func ufTuple(name string, rets ...string) effectFn {
	return func(fe *FnEnc, st *State, callee *ssa.Function, args []RV, pos token.Pos) []RV {
		var ts []Term
		var ss []string
		for _, a := range args {
			t := fe.val(a)
			ts = append(ts, t)
			ss = append(ss, t.Sort)
		}
		var out []RV
		for i, r := range rets {
			n := q(fmt.Sprintf("%s.%d", name, i))
			fe.declFun(n, ss, r)
			out = append(out, RV{T: Term{app(n, ts...), r}, Valid: true})
		}
		return out
	}
}

func noEffect(fe *FnEnc, st *State, callee *ssa.Function, args []RV, pos token.Pos) []RV { return nil }

// lock modelling: ghost set of held mutexes, keyed by the mutex address
func heldComp(fe *FnEnc, st *State) Term { return fe.getComp(st, "held", arrSort(sInt, sBool)) }

func lockEffect(lock bool) effectFn {
	return func(fe *FnEnc, st *State, callee *ssa.Function, args []RV, pos token.Pos) []RV {
		m := fe.val(args[0])
		h := heldComp(fe, st)
		if lock {
			// locking a mutex this goroutine already holds blocks forever: part of the cache's own
			// contract (C20); elsewhere it belongs to C12, which is not claimed (schedules)
			props := []string{"C12"}
			if strings.HasSuffix(fe.pkgPath, "internal/cache") {
				props = []string{"C20"}
			}
			fe.safetyProps(st, "relock", pos, tNot(tSel(h, m)), props)
		}
		fe.setComp(st, "held", arrSort(sInt, sBool), tStore(h, m, tBool(lock)))
		return nil
	}
}

func (fe *FnEnc) safetyProps(st *State, kind string, pos token.Pos, goal Term, props []string) {
	if fe.dry || !fe.sweep || goal.S == "true" {
		return
	}
	fe.addObl(st, kind, fe.srcText(pos, kind), props, goal, pos)
	fe.assume(st, goal)
}

func init() {
	effects = map[string]effectFn{
		"(*sync.Mutex).Lock":                        lockEffect(true),
		"(*sync.Mutex).Unlock":                      lockEffect(false),
		"(*sync.WaitGroup).Add":                     noEffect,
		"(*sync.WaitGroup).Done":                    noEffect,
		"(*sync.WaitGroup).Wait":                    noEffect,
		"strings.Compare":                           effStringsCompare,
		"strings.Index":                             effStringsIndex,
		"strings.Split":                             effStringsSplit,
		"fmt.Errorf":                                effNonNilErr,
		"errors.New":                                effNonNilErr,
		"strings.LastIndex":                         effStringsLastIndex,
		"strings.HasPrefix":                         ufEffect("strings.HasPrefix", sBool),
		"strings.ToLower":                           keepsAbsence("strings.ToLower"),
		"strings.TrimSpace":                         keepsAbsence("strings.TrimSpace"),
		"strings.Trim":                              ufEffect("strings.Trim", sStr),
		"path.Clean":                                ufEffect("path.Clean", sStr),
		"strings.Cut":                               effStringsCut,
		"strconv.Atoi":                              ufTuple("strconv.Atoi", sInt, sIface),
		"strconv.ParseInt":                          ufTuple("strconv.ParseInt", sInt, sIface),
		"(*regexp.Regexp).MatchString":              effRegexpMatch,
		"github.com/opencontainers/go-digest.Parse": effDigestParse,
		"(github.com/opencontainers/go-digest.Digest).Validate":     effDigestValidate,
		"(github.com/opencontainers/go-digest.Digest).String":       func(fe *FnEnc, st *State, c *ssa.Function, a []RV, p token.Pos) []RV { return one(fe.val(a[0])) },
		"(github.com/opencontainers/go-digest.Digest).Algorithm":    digestPart("digest.alg"),
		"(github.com/opencontainers/go-digest.Digest).Encoded":      digestPart("digest.hex"),
		"(github.com/opencontainers/go-digest.Algorithm).String":    func(fe *FnEnc, st *State, c *ssa.Function, a []RV, p token.Pos) []RV { return one(fe.val(a[0])) },
		"(github.com/opencontainers/go-digest.Algorithm).Available": ufEffect("digest.algAvailable", sBool),
		"errors.Is": effErrorsIs,
		"time.Now":  effTimeNow,
		"(time.Time).Before": func(fe *FnEnc, st *State, c *ssa.Function, a []RV, p token.Pos) []RV {
			return one(tCmp("<", fe.val(a[0]), fe.val(a[1])))
		},
		"(time.Time).After": func(fe *FnEnc, st *State, c *ssa.Function, a []RV, p token.Pos) []RV {
			return one(tCmp(">", fe.val(a[0]), fe.val(a[1])))
		},
		"(time.Time).Add": func(fe *FnEnc, st *State, c *ssa.Function, a []RV, p token.Pos) []RV {
			return one(tArith("+", fe.val(a[0]), fe.val(a[1])))
		},
		"(time.Time).Sub": func(fe *FnEnc, st *State, c *ssa.Function, a []RV, p token.Pos) []RV {
			return one(tArith("-", fe.val(a[0]), fe.val(a[1])))
		},
		"(time.Time).IsZero": func(fe *FnEnc, st *State, c *ssa.Function, a []RV, p token.Pos) []RV {
			return one(tEq(fe.val(a[0]), tInt(0)))
		},
		"time.Since": func(fe *FnEnc, st *State, c *ssa.Function, a []RV, p token.Pos) []RV {
			now := effTimeNow(fe, st, c, nil, p)[0].T
			return one(tArith("-", now, fe.val(a[0])))
		},
		"sort.Strings":        effSortStrings,
		"errors.Join":         effErrorsJoin,
		"(*time.Timer).Stop":  effTimerSet(false),
		"(*time.Timer).Reset": effTimerSet(true),
		"time.AfterFunc":      effAfterFunc,
		"sort.Sort":           effSortSort,
		// HTTP response writer: ghost status (first WriteHeader wins; a Write without one means 200)
		"net/http.ResponseWriter.WriteHeader": effWriteHeader,
		"net/http.ResponseWriter.Write":       effRespWrite,
		"net/http.ResponseWriter.Header":      effRespHeader,
		"(net/http.Header).Set":               effHeaderSet,
		"(net/http.Header).Add":               effHeaderSet,
		"(net/http.Header).Get":               effHeaderGet,
		"(net/http.Header).Values":            noEffect,
		"(*net/url.URL).Query":                effURLQuery,
		"(net/url.Values).Get":                effValuesGet,
		"(*encoding/json.Encoder).Encode":     effJSONEncode,
		"(*encoding/json.Decoder).Decode":     effJSONDecode,
		"encoding/json.NewEncoder":            effNewEncoder,
		"encoding/json.Marshal":               effJSONMarshal,
		"io.Copy":                             effIOCopy,
		"io.ReadAll":                          effIOReadAll,
		"io.LimitReader":                      effLimitReader,
		"net/http.ServeContent":               effServeContent,
		"net/url.JoinPath":                    effFaultOnErr("url.JoinPath", sStr),
		"(*net/url.URL).JoinPath":             effFreshNonNil,
		"(*net/url.URL).String":               ufFreshStr,
		"(net/url.Values).Set":                noEffect,
		"(net/url.Values).Encode":             ufFreshStr,
		"(*net/http.Request).Context":         noEffect,
		// upload objects: a tee writer remembers what it writes to; the hash of a digester is a function of the digester
		"io.MultiWriter": effMultiWriter,
		"github.com/opencontainers/go-digest.Digester.Hash":          effDigesterHash,
		"(github.com/opencontainers/go-digest.Algorithm).FromBytes":  effFromBytes,
		"(github.com/opencontainers/go-digest.Algorithm).FromString": effFromBytes,
		"github.com/opencontainers/go-digest.FromBytes":              effFromBytes,
		"github.com/opencontainers/go-digest.Digester.Digest":        effDigesterDigest,
		"(github.com/opencontainers/go-digest.Algorithm).Digester":   effNewDigester,
		"os.Chtimes":   effChtimes,
		"os.WriteFile": effWriteFile,
		"os.Rename":    effRename,
		// paths (C16)
		"path/filepath.Join": effPathJoin,
		"os.CreateTemp":      effCreateTemp,
		"(*os.File).Name": func(fe *FnEnc, st *State, c *ssa.Function, a []RV, p token.Pos) []RV {
			return one(fileName(fe, fe.val(a[0])))
		},
		"io/fs.DirEntry.Name": effDirEntryName,
		// command line flags: registration stores the default through the pointer and records the
		// target of the flag name in the ghost registry FLAGS (C19 wiring)
		"(*github.com/spf13/pflag.FlagSet).BoolVar":        effFlagVar,
		"(*github.com/spf13/pflag.FlagSet).IntVar":         effFlagVar,
		"(*github.com/spf13/pflag.FlagSet).StringVar":      effFlagVar,
		"(*github.com/spf13/pflag.FlagSet).DurationVar":    effFlagVar,
		"(*github.com/spf13/pflag.FlagSet).StringArrayVar": effFlagVar,
	}
}

func effStringsCompare(fe *FnEnc, st *State, callee *ssa.Function, args []RV, pos token.Pos) []RV {
	a, b := fe.val(args[0]), fe.val(args[1])
	oa, ob := Term{app("strord", a), sReal}, Term{app("strord", b), sReal}
	return one(tIte(tCmp("<", oa, ob), tInt(-1), tIte(tEq(a, b), tInt(0), tInt(1))))
}

func effStringsIndex(fe *FnEnc, st *State, callee *ssa.Function, args []RV, pos token.Pos) []RV {
	a, b := fe.val(args[0]), fe.val(args[1])
	fe.declFun("strings.Index", []string{sStr, sStr}, sInt)
	r := Term{app("strings.Index", a, b), sInt}
	if !fe.dry {
		r = fe.define("idx", r)
		fe.emit(fmt.Sprintf("(assert (and (>= %s (- 1)) (<= (+ %s (strlen %s)) (strlen %s))))", r.S, r.S, b.S, a.S))
	}
	return one(r)
}

// strings.LastIndex is its own function (first and last occurrence differ as soon as the separator occurs twice)
func effStringsLastIndex(fe *FnEnc, st *State, callee *ssa.Function, args []RV, pos token.Pos) []RV {
	a, b := fe.val(args[0]), fe.val(args[1])
	fe.declFun("strings.LastIndex", []string{sStr, sStr}, sInt)
	r := Term{app("strings.LastIndex", a, b), sInt}
	if !fe.dry {
		r = fe.define("lidx", r)
		fe.emit(fmt.Sprintf("(assert (and (>= %s (- 1)) (<= (+ %s (strlen %s)) (strlen %s))))", r.S, r.S, b.S, a.S))
	}
	return one(r)
}

// regexp matching against a package-level pattern becomes a named predicate
func effRegexpMatch(fe *FnEnc, st *State, callee *ssa.Function, args []RV, pos token.Pos) []RV {
	s := fe.val(args[1])
	name := ""
	// find which global the receiver was loaded from
	if fe.curCallRecv != nil {
		if ld, ok := fe.curCallRecv.(*ssa.UnOp); ok {
			if g, ok := ld.X.(*ssa.Global); ok {
				name = g.Name()
			}
		}
	}
	if name == "" {
		fe.declFun("re.match", []string{sInt, sStr}, sBool)
		return one(Term{app("re.match", fe.val(args[0]), s), sBool})
	}
	n := q("re." + name)
	fe.declFun(n, []string{sStr}, sBool)
	return one(Term{app(n, s), sBool})
}

// digest.Parse(s): (Digest(s), nil) when s is a well-formed digest with an available algorithm, else ("", err)
func effDigestParse(fe *FnEnc, st *State, callee *ssa.Function, args []RV, pos token.Pos) []RV {
	s := fe.val(args[0])
	fe.declFun("digestOK", []string{sStr}, sBool)
	ok := Term{app("digestOK", s), sBool}
	if !fe.dry {
		fe.emit("(assert (not (digestOK str.empty)))")
	}
	err := fe.fresh("digest.err", sIface)
	if !fe.dry {
		fe.emit("(assert (not (= " + err.S + " (mkIface 0 0))))")
	}
	return []RV{{T: tIte(ok, s, Term{"str.empty", sStr}), Valid: true}, {T: tIte(ok, nilIface, err), Valid: true}}
}

func effDigestValidate(fe *FnEnc, st *State, callee *ssa.Function, args []RV, pos token.Pos) []RV {
	s := fe.val(args[0])
	fe.declFun("digestOK", []string{sStr}, sBool)
	ok := Term{app("digestOK", s), sBool}
	err := fe.fresh("digest.err", sIface)
	if !fe.dry {
		fe.emit("(assert (not (digestOK str.empty)))")
		fe.emit("(assert (not (= " + err.S + " (mkIface 0 0))))")
	}
	return one(tIte(ok, nilIface, err))
}

func effErrorsIs(fe *FnEnc, st *State, callee *ssa.Function, args []RV, pos token.Pos) []RV {
	return one(Term{app("errIs", fe.val(args[0]), fe.val(args[1])), sBool})
}

// time is an integer; successive readings of the clock do not go backwards
func effTimeNow(fe *FnEnc, st *State, callee *ssa.Function, args []RV, pos token.Pos) []RV {
	cur := fe.getComp(st, "clock", sInt)
	if fe.dry {
		fe.setComp(st, "clock", sInt, cur)
		return one(cur)
	}
	n := fe.fresh("now", sInt)
	fe.emit("(assert (>= " + n.S + " " + cur.S + "))")
	fe.setComp(st, "clock", sInt, n)
	return one(n)
}

// sort.Strings: the row becomes a sorted permutation of itself (within the slice window)
func effSortStrings(fe *FnEnc, st *State, callee *ssa.Function, args []RV, pos token.Pos) []RV {
	s := fe.val(args[0])
	cn, cs := compElems(sStr), arrSort(sInt, arrSort(sInt, sStr))
	h := fe.getComp(st, cn, cs)
	if fe.dry {
		fe.setComp(st, cn, cs, h)
		return nil
	}
	old := fe.define("sort.old", tSel(h, slArr(s)))
	nr := fe.fresh("sort.row", arrSort(sInt, sStr))
	perm := fe.fresh("sort.perm", arrSort(sInt, sInt))
	inv := fe.fresh("sort.inv", arrSort(sInt, sInt))
	lo := fe.define("sort.lo", slOff(s))
	hi := fe.define("sort.hi", tArith("+", slOff(s), slLen(s)))
	in := func(p string) string { return fmt.Sprintf("(and (<= %s %s) (< %s %s))", lo.S, p, p, hi.S) }
	// outside the window unchanged
	fe.emit(fmt.Sprintf("(assert (forall ((p Int)) (! (=> (not %s) (= (select %s p) (select %s p))) :pattern ((select %s p)))))", in("p"), nr.S, old.S, nr.S))
	// permutation: new[p] = old[perm[p]], perm is a bijection of the window (inv is its inverse)
	fe.emit(fmt.Sprintf("(assert (forall ((p Int)) (! (=> %s (and %s (= (select %s p) (select %s (select %s p))) (= (select %s (select %s p)) p))) :pattern ((select %s p)) :pattern ((select %s p)))))",
		in("p"), in("(select "+perm.S+" p)"), nr.S, old.S, perm.S, inv.S, perm.S, nr.S, perm.S))
	// (also triggered by a read of the old row: where did that element go?)
	fe.emit(fmt.Sprintf("(assert (forall ((p Int)) (! (=> %s (and %s (= (select %s (select %s p)) p) (= (select %s (select %s p)) (select %s p)))) :pattern ((select %s p)) :pattern ((select %s p)))))",
		in("p"), in("(select "+inv.S+" p)"), perm.S, inv.S, nr.S, inv.S, old.S, inv.S, old.S))
	// sorted
	fe.emit(fmt.Sprintf("(assert (forall ((p Int) (r Int)) (! (=> (and %s %s (< p r)) (<= (strord (select %s p)) (strord (select %s r)))) :pattern ((select %s p) (select %s r)))))",
		in("p"), in("r"), nr.S, nr.S, nr.S, nr.S))
	fe.setComp(st, cn, cs, tStore(h, slArr(s), nr))
	return nil
}

// havocPointees: an external call may write through pointer arguments to memory the contracts can see
func (fe *FnEnc) havocPointees(st *State, callee *ssa.Function, args []RV, argVals []ssa.Value) {
	for i, a := range argVals {
		if mi, isMI := a.(*ssa.MakeInterface); isMI {
			// a pointer passed as `any` (json.Unmarshal(raw, &m), fmt.Sscan, ...)
			if _, isPtr := mi.X.Type().Underlying().(*types.Pointer); isPtr {
				el := mi.X.Type().Underlying().(*types.Pointer).Elem()
				if n, ok := derefNamed(el); !(ok && n.Obj().Pkg() != nil && !inScopePkg(n.Obj().Pkg().Path()) && structOf(el) != nil) {
					fe.havocPointee(st, fe.get(st, mi.X), mi.X.Type())
				}
			}
			continue
		}
		pt, ok := a.Type().Underlying().(*types.Pointer)
		if !ok {
			continue
		}
		el := pt.Elem()
		if n, ok := derefNamed(el); ok && n.Obj().Pkg() != nil && !inScopePkg(n.Obj().Pkg().Path()) && structOf(el) != nil {
			continue // external opaque struct (receiver objects etc.)
		}
		rv := args[i]
		fe.havocPointee(st, rv, a.Type())
	}
}

func inScopePkg(path string) bool {
	return path == modPath || len(path) > len(modPath) && path[:len(modPath)+1] == modPath+"/"
}

func (fe *FnEnc) havocPointee(st *State, rv RV, ptrT types.Type) {
	a := fe.addrOf(rv, ptrT)
	el := ptrT.Underlying().(*types.Pointer).Elem()
	if fe.dry {
		// record the components
		fe.store(st, a, fe.load(st, a))
		return
	}
	v := fe.fresh("ext.out", fe.sorts.sortOf(el))
	fe.assumeWF(st, el, v)
	fe.store(st, a, v)
}

func ufFresh(ret string) effectFn {
	return func(fe *FnEnc, st *State, callee *ssa.Function, args []RV, pos token.Pos) []RV {
		if fe.dry {
			return one(zeroOfSort(ret))
		}
		return one(fe.fresh("ext", ret))
	}
}

// timers: ghost flag "armed" (the timer will still call its function); AfterFunc and Reset arm, Stop disarms
const timerArmed = "M.Timer.armed"

func effTimerSet(armed bool) effectFn {
	return func(fe *FnEnc, st *State, callee *ssa.Function, args []RV, pos token.Pos) []RV {
		srt := arrSort(sInt, sBool)
		h := fe.getComp(st, timerArmed, srt)
		fe.setComp(st, timerArmed, srt, tStore(h, fe.val(args[0]), tBool(armed)))
		if fe.dry {
			return one(tFalse)
		}
		return one(fe.fresh("timer.was", sBool))
	}
}

// time.AfterFunc returns a fresh armed timer; the function it schedules is not run as part of this call
func effAfterFunc(fe *FnEnc, st *State, callee *ssa.Function, args []RV, pos token.Pos) []RV {
	r := fe.newRef(st)
	srt := arrSort(sInt, sBool)
	h := fe.getComp(st, timerArmed, srt)
	fe.setComp(st, timerArmed, srt, tStore(h, r, tTrue))
	fe.assumed["time.AfterFunc: the scheduled function is not part of the caller's sequential behaviour"] = true
	return one(r)
}

// sort.Sort on a *sortKeys: the keys are permuted in place (Len/Less/Swap of sortKeys are verified separately;
// the order itself is not modelled)
func effSortSort(fe *FnEnc, st *State, callee *ssa.Function, args []RV, pos token.Pos) []RV {
	mi, ok := fe.curCallRecv.(*ssa.MakeInterface)
	if !ok {
		fe.havocs["sort.Sort on unknown value"] = true
		fe.havocAll(st)
		return nil
	}
	n, ok := derefNamed(mi.X.Type())
	if !ok || n.Obj().Name() != "sortKeys" {
		fe.havocs["sort.Sort on "+mi.X.Type().String()] = true
		fe.havocAll(st)
		return nil
	}
	pt := mi.X.Type().Underlying().(*types.Pointer).Elem()
	p := fe.val(fe.get(st, mi.X))
	sT := structOf(pt)
	var keys Term
	var elT types.Type
	for i := 0; i < sT.NumFields(); i++ {
		if sT.Field(i).Name() == "keys" {
			keys = fe.loadField(st, pt, i, p, false)
			elT = sT.Field(i).Type().Underlying().(*types.Slice).Elem()
		}
	}
	es := fe.sorts.sortOf(elT)
	cn, cs := compElems(es), arrSort(sInt, arrSort(sInt, es))
	fe.compT[cn] = elT
	h := fe.getComp(st, cn, cs)
	if fe.dry {
		fe.setComp(st, cn, cs, h)
		return nil
	}
	fe.permuteRow(st, cn, cs, h, keys)
	fe.assumed["sort.Sort permutes the keys of a sortKeys in place (order not modelled)"] = true
	return nil
}

// permuteRow replaces the window of a slice by a permutation of itself
func (fe *FnEnc) permuteRow(st *State, cn, cs string, h Term, s Term) (Term, Term) {
	rowS := arrElemSort(cs)
	old := fe.define("perm.old", tSel(h, slArr(s)))
	nr := fe.fresh("perm.row", rowS)
	perm := fe.fresh("perm.f", arrSort(sInt, sInt))
	inv := fe.fresh("perm.inv", arrSort(sInt, sInt))
	lo := fe.define("perm.lo", slOff(s))
	hi := fe.define("perm.hi", tArith("+", slOff(s), slLen(s)))
	in := func(p string) string { return fmt.Sprintf("(and (<= %s %s) (< %s %s))", lo.S, p, p, hi.S) }
	fe.emit(fmt.Sprintf("(assert (forall ((p Int)) (! (=> (not %s) (= (select %s p) (select %s p))) :pattern ((select %s p)))))", in("p"), nr.S, old.S, nr.S))
	fe.emit(fmt.Sprintf("(assert (forall ((p Int)) (! (=> %s (and %s (= (select %s p) (select %s (select %s p))) (= (select %s (select %s p)) p))) :pattern ((select %s p)) :pattern ((select %s p)))))",
		in("p"), in("(select "+perm.S+" p)"), nr.S, old.S, perm.S, inv.S, perm.S, nr.S, perm.S))
	fe.emit(fmt.Sprintf("(assert (forall ((p Int)) (! (=> %s (and %s (= (select %s (select %s p)) p) (= (select %s (select %s p)) (select %s p)))) :pattern ((select %s p)) :pattern ((select %s p)))))",
		in("p"), in("(select "+inv.S+" p)"), perm.S, inv.S, nr.S, inv.S, old.S, inv.S, old.S))
	fe.setComp(st, cn, cs, tStore(h, slArr(s), nr))
	fe.rowFrame(h, fe.getComp(st, cn, cs), slArr(s))
	return nr, old
}

// errors.Join(errs...): nil exactly when every element is nil
func effErrorsJoin(fe *FnEnc, st *State, callee *ssa.Function, args []RV, pos token.Pos) []RV {
	s := fe.val(args[0])
	if fe.dry {
		return one(nilIface)
	}
	h := fe.getComp(st, compElems(sIface), arrSort(sInt, arrSort(sInt, sIface)))
	r := fe.fresh("join", sIface)
	row := fe.define("join.row", tSel(h, slArr(s)))
	fe.emit(fmt.Sprintf("(assert (= (= %s (mkIface 0 0)) (forall ((p Int)) (! (=> (and (<= %s p) (< p (+ %s %s))) (= (select %s p) (mkIface 0 0))) :pattern ((select %s p))))))",
		r.S, slOff(s).S, slOff(s).S, slLen(s).S, row.S, row.S))
	fe.emit("(assert (=> (= " + ifTyp(r).S + " 0) (= " + ifVal(r).S + " 0)))")
	return one(r)
}

const respStatus = "M.ResponseWriter.status"
const respServed = "M.ResponseWriter.served"
const respServedOf = "M.ResponseWriter.servedOf"

func respKey(fe *FnEnc, w RV) Term { return ifVal(fe.val(w)) }

func effWriteHeader(fe *FnEnc, st *State, callee *ssa.Function, args []RV, pos token.Pos) []RV {
	srt := arrSort(sInt, sInt)
	h := fe.getComp(st, respStatus, srt)
	k := respKey(fe, args[0])
	cur := tSel(h, k)
	fe.setComp(st, respStatus, srt, tStore(h, k, tIte(tEq(cur, tInt(0)), fe.val(args[1]), cur)))
	return nil
}

func effRespWrite(fe *FnEnc, st *State, callee *ssa.Function, args []RV, pos token.Pos) []RV {
	srt := arrSort(sInt, sInt)
	h := fe.getComp(st, respStatus, srt)
	k := respKey(fe, args[0])
	cur := tSel(h, k)
	fe.setComp(st, respStatus, srt, tStore(h, k, tIte(tEq(cur, tInt(0)), tInt(200), cur)))
	return nil
}

// the header map of a response writer is a ghost object: one per writer, values by canonical key
func effRespHeader(fe *FnEnc, st *State, callee *ssa.Function, args []RV, pos token.Pos) []RV {
	fe.declFun("resp.hdr", []string{sInt}, sInt)
	r := Term{app("resp.hdr", respKey(fe, args[0])), sInt}
	if !fe.dry {
		fe.emit("(assert (not (= " + r.S + " 0)))")
	}
	return one(r)
}

const hdrVals = "HDR"

func canonKey(fe *FnEnc, k Term) Term {
	// the canonical form of a literal header name is computed here (so different literal names are different keys)
	if lit, ok := fe.lits[k.S]; ok {
		return fe.strLit(textproto.CanonicalMIMEHeaderKey(lit))
	}
	fe.declFun("hdr.canon", []string{sStr}, sStr)
	return Term{app("hdr.canon", k), sStr}
}

func effHeaderSet(fe *FnEnc, st *State, callee *ssa.Function, args []RV, pos token.Pos) []RV {
	srt := arrSort(sInt, arrSort(sStr, sStr))
	h := fe.getComp(st, hdrVals, srt)
	m := fe.val(args[0])
	fe.setComp(st, hdrVals, srt, tStore(h, m, tStore(tSel(h, m), canonKey(fe, fe.val(args[1])), fe.val(args[2]))))
	return nil
}

func effHeaderGet(fe *FnEnc, st *State, callee *ssa.Function, args []RV, pos token.Pos) []RV {
	srt := arrSort(sInt, arrSort(sStr, sStr))
	h := fe.getComp(st, hdrVals, srt)
	return one(tSel(tSel(h, fe.val(args[0])), canonKey(fe, fe.val(args[1]))))
}

// URL query: a function of the URL's current RawQuery
func effURLQuery(fe *FnEnc, st *State, callee *ssa.Function, args []RV, pos token.Pos) []RV {
	u := fe.val(args[0])
	var raw Term
	if n, ok := derefNamed(callee.Signature.Recv().Type()); ok {
		stt := structOf(n)
		for i := 0; i < stt.NumFields(); i++ {
			if stt.Field(i).Name() == "RawQuery" {
				raw = fe.loadField(st, n, i, u, false)
			}
		}
	}
	fe.declFun("url.parseQuery", []string{sStr}, sInt)
	r := Term{app("url.parseQuery", raw), sInt}
	if !fe.dry {
		fe.emit("(assert (> " + r.S + " 0))")
	}
	return one(r)
}

func effValuesGet(fe *FnEnc, st *State, callee *ssa.Function, args []RV, pos token.Pos) []RV {
	fe.declFun("url.valuesGet", []string{sInt, sStr}, sStr)
	return one(Term{app("url.valuesGet", fe.val(args[0]), fe.val(args[1])), sStr})
}

// json.NewEncoder(w): remember which writer the encoder writes to (ghost)
func effNewEncoder(fe *FnEnc, st *State, callee *ssa.Function, args []RV, pos token.Pos) []RV {
	r := fe.newRef(st)
	srt := arrSort(sInt, sIface)
	h := fe.getComp(st, "M.Encoder.w", srt)
	fe.setComp(st, "M.Encoder.w", srt, tStore(h, r, fe.val(args[0])))
	return one(r)
}

// Encode writes to the encoder's writer: for a response writer that is an implicit 200 when no status was set
func effJSONEncode(fe *FnEnc, st *State, callee *ssa.Function, args []RV, pos token.Pos) []RV {
	srt := arrSort(sInt, sIface)
	h := fe.getComp(st, "M.Encoder.w", srt)
	w := tSel(h, fe.val(args[0]))
	ssrt := arrSort(sInt, sInt)
	sh := fe.getComp(st, respStatus, ssrt)
	k := ifVal(w)
	cur := tSel(sh, k)
	fe.setComp(st, respStatus, ssrt, tStore(sh, k, tIte(tEq(cur, tInt(0)), tInt(200), cur)))
	// ghost: the object the last Encode wrote into (C09/C10: the file that is renamed over index.json is the file
	// that was encoded into, not a buffer in front of it)
	fe.setComp(st, "lastEncodeTarget", sInt, k)
	return nil
}

// json.Marshal: fresh bytes; a failure is an internal error, not something the client caused (ghost fault flag)
func effJSONMarshal(fe *FnEnc, st *State, callee *ssa.Function, args []RV, pos token.Pos) []RV {
	fe.havocComp(st, "alloc", sInt)
	if fe.dry {
		fe.setComp(st, "fault", sBool, fe.getComp(st, "fault", sBool))
		return []RV{{T: nilSlice, Valid: true}, {T: nilIface, Valid: true}}
	}
	b := fe.fresh("json.bytes", sSlice)
	fe.emit("(assert " + fe.wf(types.NewSlice(types.Typ[types.Byte]), b, fe.alloc(st), 0).S + ")")
	err := fe.fresh("json.err", sIface)
	fe.emit("(assert (=> (= (i_typ " + err.S + ") 0) (= (i_val " + err.S + ") 0)))")
	f := fe.getComp(st, "fault", sBool)
	fe.setComp(st, "fault", sBool, tOr(f, tNot(tEq(err, nilIface))))
	return []RV{{T: b, Valid: true}, {T: err, Valid: true}}
}

const bcWritten = "M.BlobCreator.written"

// io.Copy(dst, src): when dst is an upload session this is its Write (ghost call counter); a failure is a fault
// (errors while reading the request body are not modelled as client errors)
func effIOCopy(fe *FnEnc, st *State, callee *ssa.Function, args []RV, pos token.Pos) []RV {
	bumpFeeds(fe, st)
	srt := arrSort(sInt, sInt)
	h := fe.getComp(st, bcWritten, srt)
	k := ifVal(fe.val(args[0]))
	fe.setComp(st, bcWritten, srt, tStore(h, k, tArith("+", tSel(h, k), tInt(1))))
	fe.havocComp(st, "M.BlobCreator.size", srt)
	f := fe.getComp(st, "fault", sBool)
	if fe.dry {
		fe.setComp(st, "fault", sBool, f)
		return []RV{{T: tInt(0), Valid: true}, {T: nilIface, Valid: true}}
	}
	n := fe.fresh("copy.n", sInt)
	fe.emit("(assert (>= " + n.S + " 0))")
	err := fe.fresh("copy.err", sIface)
	fe.emit("(assert (=> (= (i_typ " + err.S + ") 0) (= (i_val " + err.S + ") 0)))")
	fe.setComp(st, "fault", sBool, tOr(f, tNot(tEq(err, nilIface))))
	return []RV{{T: n, Valid: true}, {T: err, Valid: true}}
}

func effIOReadAll(fe *FnEnc, st *State, callee *ssa.Function, args []RV, pos token.Pos) []RV {
	fe.havocComp(st, "alloc", sInt)
	f := fe.getComp(st, "fault", sBool)
	if fe.dry {
		fe.setComp(st, "fault", sBool, f)
		fe.setComp(st, "truncated", sBool, fe.getComp(st, "truncated", sBool))
		return []RV{{T: nilSlice, Valid: true}, {T: nilIface, Valid: true}}
	}
	b := fe.fresh("readall", sSlice)
	fe.emit("(assert " + fe.wf(types.NewSlice(types.Typ[types.Byte]), b, fe.alloc(st), 0).S + ")")
	// reading through a LimitReader: at most the limit; the source was cut short only if the limit was reached
	{
		rv := ifVal(fe.val(args[0]))
		lim := tSel(fe.getComp(st, "LIM", arrSort(sInt, sInt)), rv)
		isl := tSel(fe.getComp(st, "LIMSET", arrSort(sInt, sBool)), rv)
		t := fe.fresh("truncated", sBool)
		fe.emit(fmt.Sprintf("(assert (=> %s (and (<= (s_len %s) %s) (=> (< (s_len %s) %s) (not %s)))))", isl.S, b.S, lim.S, b.S, lim.S, t.S))
		fe.emit(fmt.Sprintf("(assert (=> (not %s) (not %s)))", isl.S, t.S))
		tr := fe.getComp(st, "truncated", sBool)
		fe.setComp(st, "truncated", sBool, tOr(tr, t))
	}
	err := fe.fresh("readall.err", sIface)
	fe.emit("(assert (=> (= (i_typ " + err.S + ") 0) (= (i_val " + err.S + ") 0)))")
	fe.setComp(st, "fault", sBool, tOr(f, tNot(tEq(err, nilIface))))
	return []RV{{T: b, Valid: true}, {T: err, Valid: true}}
}

// http.ServeContent answers 200, 206, 304, 412 or 416 (assumed; range handling is the standard library's)
func effServeContent(fe *FnEnc, st *State, callee *ssa.Function, args []RV, pos token.Pos) []RV {
	srt := arrSort(sInt, sInt)
	h := fe.getComp(st, respStatus, srt)
	k := respKey(fe, args[0])
	cur := tSel(h, k)
	// ghost: this response was produced by ServeContent, from the reader handed out for which digest (C02, C01)
	osrt, bsrt := arrSort(sInt, sStr), arrSort(sInt, sBool)
	oh, bh := fe.getComp(st, respServedOf, osrt), fe.getComp(st, respServed, bsrt)
	if fe.dry {
		fe.setComp(st, respStatus, srt, h)
		fe.setComp(st, respServedOf, osrt, oh)
		fe.setComp(st, respServed, bsrt, bh)
		return nil
	}
	if len(args) >= 5 {
		of := fe.getComp(st, "M.ReadSeekCloser.of", arrSort(sInt, sStr))
		fe.setComp(st, respServedOf, osrt, tStore(oh, k, tSel(of, ifVal(fe.val(args[4])))))
		fe.setComp(st, respServed, bsrt, tStore(bh, k, tTrue))
	}
	sc := fe.fresh("servecontent.status", sInt)
	fe.emit(fmt.Sprintf("(assert (or (= %s 200) (= %s 206) (= %s 304) (= %s 412) (= %s 416)))", sc.S, sc.S, sc.S, sc.S, sc.S))
	fe.setComp(st, respStatus, srt, tStore(h, k, tIte(tEq(cur, tInt(0)), sc, cur)))
	return nil
}

// a library call whose failure is an internal error (ghost fault), never caused by the request
func effFaultOnErr(name string, ret string) effectFn {
	return func(fe *FnEnc, st *State, callee *ssa.Function, args []RV, pos token.Pos) []RV {
		f := fe.getComp(st, "fault", sBool)
		if fe.dry {
			fe.setComp(st, "fault", sBool, f)
			return []RV{{T: zeroOfSort(ret), Valid: true}, {T: nilIface, Valid: true}}
		}
		v := fe.fresh(name, ret)
		err := fe.fresh(name+".err", sIface)
		fe.emit("(assert (=> (= (i_typ " + err.S + ") 0) (= (i_val " + err.S + ") 0)))")
		fe.setComp(st, "fault", sBool, tOr(f, tNot(tEq(err, nilIface))))
		return []RV{{T: v, Valid: true}, {T: err, Valid: true}}
	}
}

// (*json.Decoder).Decode(&v): in this code base decoders only read stored blobs, so a failure is a storage fault;
// the target is overwritten with unconstrained, well-formed content
func effJSONDecode(fe *FnEnc, st *State, callee *ssa.Function, args []RV, pos token.Pos) []RV {
	fe.havocComp(st, "alloc", sInt)
	if mi, ok := fe.curCallArgs[1].(*ssa.MakeInterface); ok {
		if _, isPtr := mi.X.Type().Underlying().(*types.Pointer); isPtr {
			fe.havocPointee(st, fe.get(st, mi.X), mi.X.Type())
		}
	}
	f := fe.getComp(st, "fault", sBool)
	if fe.dry {
		fe.setComp(st, "fault", sBool, f)
		return one(nilIface)
	}
	err := fe.fresh("decode.err", sIface)
	fe.emit("(assert (=> (= (i_typ " + err.S + ") 0) (= (i_val " + err.S + ") 0)))")
	fe.setComp(st, "fault", sBool, tOr(f, tNot(tEq(err, nilIface))))
	return one(err)
}

func effFreshNonNil(fe *FnEnc, st *State, callee *ssa.Function, args []RV, pos token.Pos) []RV {
	r := fe.newRef(st)
	// the object is new: its fields are unconstrained
	return one(r)
}

func ufFreshStr(fe *FnEnc, st *State, callee *ssa.Function, args []RV, pos token.Pos) []RV {
	if fe.dry {
		return one(Term{"str.empty", sStr})
	}
	return one(fe.fresh("ext.str", sStr))
}

// strings.Split with a non-empty separator returns at least one element
func effStringsSplit(fe *FnEnc, st *State, callee *ssa.Function, args []RV, pos token.Pos) []RV {
	fe.havocComp(st, "alloc", sInt)
	if fe.dry {
		return one(nilSlice)
	}
	r := fe.fresh("split", sSlice)
	fe.emit("(assert " + fe.wf(types.NewSlice(types.Typ[types.String]), r, fe.alloc(st), 0).S + ")")
	fe.emit("(assert (>= (s_len " + r.S + ") 1))")
	return one(r)
}

// fmt.Errorf / errors.New return a new, non-nil error (wrapping is not modelled)
func effNonNilErr(fe *FnEnc, st *State, callee *ssa.Function, args []RV, pos token.Pos) []RV {
	r := fe.newRef(st)
	fe.declConst("typ.error.value", sInt)
	if !fe.dry {
		fe.emit("(assert (> typ.error.value 0))")
	}
	return one(mkIface(Term{"typ.error.value", sInt}, r))
}

// io.LimitReader(r, n): a new reader with a ghost limit
func effLimitReader(fe *FnEnc, st *State, callee *ssa.Function, args []RV, pos token.Pos) []RV {
	r := fe.newRef(st)
	ls, bs := arrSort(sInt, sInt), arrSort(sInt, sBool)
	fe.setComp(st, "LIM", ls, tStore(fe.getComp(st, "LIM", ls), r, fe.val(args[1])))
	fe.setComp(st, "LIMSET", bs, tStore(fe.getComp(st, "LIMSET", bs), r, tTrue))
	fe.declConst("typ.limitreader", sInt)
	if !fe.dry {
		fe.emit("(assert (> typ.limitreader 0))")
	}
	return one(mkIface(Term{"typ.limitreader", sInt}, r))
}

// pflag XxxVar(p, name, value, usage): *p = value; FLAGS[name] = p
func effFlagVar(fe *FnEnc, st *State, callee *ssa.Function, args []RV, pos token.Pos) []RV {
	pT := callee.Signature.Params().At(0).Type()
	if a := fe.addrOf(args[1], pT); a != nil {
		fe.store(st, a, fe.val(args[3]))
	}
	srt := arrSort(sStr, sInt)
	h := fe.getComp(st, "FLAGS", srt)
	fe.setComp(st, "FLAGS", srt, tStore(h, fe.val(args[2]), fe.val(args[1])))
	return nil
}

// io.MultiWriter(a, b): a new writer w with tee.a(w) = a and tee.b(w) = b (values of the interface arguments)
func effMultiWriter(fe *FnEnc, st *State, callee *ssa.Function, args []RV, pos token.Pos) []RV {
	r := fe.newRef(st)
	fe.declConst("typ.multiwriter", sInt)
	fe.declFun("tee.a", []string{sInt}, sInt)
	fe.declFun("tee.b", []string{sInt}, sInt)
	if !fe.dry {
		fe.emit("(assert (> typ.multiwriter 0))")
		sl := fe.val(args[0])
		h := fe.getComp(st, compElems(sIface), arrSort(sInt, arrSort(sInt, sIface)))
		e0 := tSel(tSel(h, slArr(sl)), slOff(sl))
		e1 := tSel(tSel(h, slArr(sl)), tArith("+", slOff(sl), tInt(1)))
		fe.emit(fmt.Sprintf("(assert (=> (>= (s_len %s) 1) (= (tee.a %s) (i_val %s))))", sl.S, r.S, e0.S))
		fe.emit(fmt.Sprintf("(assert (=> (>= (s_len %s) 2) (= (tee.b %s) (i_val %s))))", sl.S, r.S, e1.S))
	}
	return one(mkIface(Term{"typ.multiwriter", sInt}, r))
}

// Digester.Hash(): the same hash object every time, non-nil
func effDigesterHash(fe *FnEnc, st *State, callee *ssa.Function, args []RV, pos token.Pos) []RV {
	fe.declConst("typ.hash", sInt)
	fe.declFun("digester.hash", []string{sInt}, sInt)
	if !fe.dry {
		fe.emit("(assert (> typ.hash 0))")
	}
	v := Term{app("digester.hash", ifVal(fe.val(args[0]))), sInt}
	if !fe.dry {
		fe.emit("(assert (not (= " + v.S + " 0)))")
	}
	return one(mkIface(Term{"typ.hash", sInt}, v))
}

// Algorithm.Digester(): a new digester
func effNewDigester(fe *FnEnc, st *State, callee *ssa.Function, args []RV, pos token.Pos) []RV {
	r := fe.newRef(st)
	fe.declConst("typ.digester", sInt)
	if !fe.dry {
		fe.emit("(assert (> typ.digester 0))")
	}
	return one(mkIface(Term{"typ.digester", sInt}, r))
}

// ---------------------------------------------------------------------
// paths: path.inside(x, y) "x is below directory y", path.safe(s) "s is a relative path without .. elements"

func declPathFuns(fe *FnEnc) {
	if fe.declared["path.funs"] {
		return
	}
	fe.declared["path.funs"] = true
	fe.declFun("path.inside", []string{sStr, sStr}, sBool)
	fe.declFun("path.safe", []string{sStr}, sBool)
	fe.declFun("path.join", []string{sStr, sStr}, sStr)
	fe.emit("(assert (forall ((x Str) (y Str) (z Str)) (! (=> (and (path.inside x y) (path.inside y z)) (path.inside x z)) :pattern ((path.inside x y) (path.inside y z)))))")
	fe.emit("(assert (path.safe str.empty))")
}

// safeLiteral: a literal that is a relative path and has no .. element
func safeLiteral(s string) bool {
	if strings.HasPrefix(s, "/") || strings.ContainsRune(s, 0) {
		return false
	}
	for _, el := range strings.Split(s, "/") {
		if el == ".." {
			return false
		}
	}
	return true
}

func pathSafeFacts(fe *FnEnc, t Term) {
	if lit, ok := fe.lits[t.S]; ok && safeLiteral(lit) {
		fe.emit("(assert (path.safe " + t.S + "))")
	}
}

// filepath.Join(base, e1, ..., en): nested path.join; each step stays below the previous one when the element is safe
// digestPart: algorithm / encoded part of a digest; for a valid digest both are single, safe path elements
// (the algorithm is a registered name, the encoded part is hexadecimal)
func digestPart(name string) effectFn {
	uf := ufEffect(name, sStr)
	return func(fe *FnEnc, st *State, callee *ssa.Function, args []RV, pos token.Pos) []RV {
		if !fe.dry {
			// go-digest panics in Algorithm/Encoded/Hex when the string has no ':' separator: a digest that was not
			// parsed or validated must not reach them (C15)
			fe.declFun("digestOK", []string{sStr}, sBool)
			fe.declFun("digest.hasSep", []string{sStr}, sBool)
			d := fe.val(args[0])
			fe.emit(fmt.Sprintf("(assert (=> (digestOK %s) (digest.hasSep %s)))", d.S, d.S))
			fe.safety(st, "deppanic", pos, Term{app("digest.hasSep", d), sBool})
		}
		r := uf(fe, st, callee, args, pos)
		if !fe.dry {
			declPathFuns(fe)
			fe.declFun("digestOK", []string{sStr}, sBool)
			fe.emit(fmt.Sprintf("(assert (=> (digestOK %s) (path.safe %s)))", fe.val(args[0]).S, r[0].T.S))
		}
		return r
	}
}

func effPathJoin(fe *FnEnc, st *State, callee *ssa.Function, args []RV, pos token.Pos) []RV {
	if fe.dry {
		return one(Term{"str.empty", sStr})
	}
	declPathFuns(fe)
	for _, ln := range fe.litOrder {
		if !fe.declared["path.safe:"+ln] && safeLiteral(fe.lits[ln]) {
			fe.declared["path.safe:"+ln] = true
			fe.emit("(assert (path.safe " + ln + "))")
		}
	}
	n, ok := int64(0), false
	if len(fe.curCallArgs) == 1 {
		n, ok = constLen(fe.curCallArgs[0])
	}
	if !ok || n == 0 {
		return one(fe.fresh("join", sStr))
	}
	sl := fe.val(args[0])
	h := fe.getComp(st, compElems(sStr), arrSort(sInt, arrSort(sInt, sStr)))
	el := func(i int64) Term {
		return fe.define("join.el", tSel(tSel(h, slArr(sl)), tArith("+", slOff(sl), tInt(i))))
	}
	acc := el(0)
	for i := int64(1); i < n; i++ {
		e := el(i)
		next := fe.define("join", Term{app("path.join", acc, e), sStr})
		fe.emit(fmt.Sprintf("(assert (=> (path.safe %s) (path.inside %s %s)))", e.S, next.S, acc.S))
		acc = next
	}
	return one(acc)
}

func fileName(fe *FnEnc, f Term) Term {
	fe.declFun("file.name", []string{sInt}, sStr)
	return Term{app("file.name", f), sStr}
}

// os.CreateTemp(dir, pattern): a new file below dir (the pattern may not contain a separator, or the call fails)
func effCreateTemp(fe *FnEnc, st *State, callee *ssa.Function, args []RV, pos token.Pos) []RV {
	fe.havocComp(st, "alloc", sInt)
	if fe.dry {
		return []RV{{T: tInt(0), Valid: true}, {T: nilIface, Valid: true}}
	}
	declPathFuns(fe)
	f := fe.fresh("tempfile", sInt)
	err := fe.fresh("createtemp.err", sIface)
	fe.emit("(assert (=> (= (i_typ " + err.S + ") 0) (= (i_val " + err.S + ") 0)))")
	fe.emit(fmt.Sprintf("(assert (=> (= %s (mkIface 0 0)) (and (> %s 0) (<= %s %s) (path.inside %s %s))))", err.S, f.S, f.S, fe.alloc(st).S, fileName(fe, f).S, fe.val(args[0]).S))
	fe.emit(fmt.Sprintf("(assert (=> (not (= %s (mkIface 0 0))) (= %s 0)))", err.S, f.S))
	return []RV{{T: f, Valid: true}, {T: err, Valid: true}}
}

// fs.DirEntry.Name(): the name of a directory entry is a single element and never ".."
func effDirEntryName(fe *FnEnc, st *State, callee *ssa.Function, args []RV, pos token.Pos) []RV {
	if fe.dry {
		return one(Term{"str.empty", sStr})
	}
	declPathFuns(fe)
	n := fe.fresh("direntry.name", sStr)
	fe.emit("(assert (path.safe " + n.S + "))")
	return one(n)
}

// Digester.Digest(): the digest of what was hashed so far: a function of the digester and of the ghost counter of
// write operations (feeds), so two readings with no write in between agree; always a well-formed digest
func effDigesterDigest(fe *FnEnc, st *State, callee *ssa.Function, args []RV, pos token.Pos) []RV {
	if fe.dry {
		return one(Term{"str.empty", sStr})
	}
	d := digestNowTerm(fe, st, ifVal(fe.val(args[0])))
	fe.emit("(assert (digestOK " + d.S + "))")
	return one(d)
}

func digestNowTerm(fe *FnEnc, st *State, dg Term) Term {
	fe.declFun("digestOK", []string{sStr}, sBool)
	fe.declFun("digester.digest", []string{sInt, sInt}, sStr)
	return Term{app("digester.digest", dg, fe.getComp(st, "feeds", sInt)), sStr}
}

// bumpFeeds: some writer was written to (any Write through an interface, io.Copy): digests read before and after differ
func bumpFeeds(fe *FnEnc, st *State) {
	fe.setComp(st, "feeds", sInt, tArith("+", fe.getComp(st, "feeds", sInt), tInt(1)))
}

// os.Chtimes(path, atime, mtime): sets the modification time (ghost map MT: path -> time)
func effChtimes(fe *FnEnc, st *State, callee *ssa.Function, args []RV, pos token.Pos) []RV {
	srt := arrSort(sStr, sInt)
	h := fe.getComp(st, "MT", srt)
	if fe.dry {
		fe.setComp(st, "MT", srt, h)
		return one(nilIface)
	}
	err := fe.fresh("chtimes.err", sIface)
	fe.emit("(assert (=> (= (i_typ " + err.S + ") 0) (= (i_val " + err.S + ") 0)))")
	fe.setComp(st, "MT", srt, tIte(tEq(err, nilIface), tStore(h, fe.val(args[0]), fe.val(args[2])), h))
	return one(err)
}

// Algorithm.FromBytes(b): a well-formed digest (a function of the algorithm and of the slice value; the content of the
// bytes is not modelled, so two different slices give unrelated digests)
func effFromBytes(fe *FnEnc, st *State, callee *ssa.Function, args []RV, pos token.Pos) []RV {
	if fe.dry {
		return one(Term{"str.empty", sStr})
	}
	fe.declFun("digestOK", []string{sStr}, sBool)
	d := fe.fresh("frombytes", sStr)
	fe.emit("(assert (digestOK " + d.S + "))")
	fe.emit("(assert (not (digestOK str.empty)))")
	return one(d)
}

// os.WriteFile(path, data, perm): on success the file at path has been written once more (ghost counter WROTE per path)
func effWriteFile(fe *FnEnc, st *State, callee *ssa.Function, args []RV, pos token.Pos) []RV {
	srt := arrSort(sStr, sInt)
	h := fe.getComp(st, "WROTE", srt)
	if fe.dry {
		fe.setComp(st, "WROTE", srt, h)
		return one(nilIface)
	}
	err := fe.fresh("writefile.err", sIface)
	fe.emit("(assert (=> (= (i_typ " + err.S + ") 0) (= (i_val " + err.S + ") 0)))")
	p := fe.val(args[0])
	fe.setComp(st, "WROTE", srt, tIte(tEq(err, nilIface), tStore(h, p, tArith("+", tSel(h, p), tInt(1))), h))
	return one(err)
}

// os.Rename(old, new): on success one more file has been moved to `new` (ghost counter RENAMED per destination path)
func effRename(fe *FnEnc, st *State, callee *ssa.Function, args []RV, pos token.Pos) []RV {
	srt := arrSort(sStr, sInt)
	h := fe.getComp(st, "RENAMED", srt)
	if fe.dry {
		fe.setComp(st, "RENAMED", srt, h)
		return one(nilIface)
	}
	err := fe.fresh("rename.err", sIface)
	fe.emit("(assert (=> (= (i_typ " + err.S + ") 0) (= (i_val " + err.S + ") 0)))")
	p := fe.val(args[1])
	fe.setComp(st, "RENAMED", srt, tIte(tEq(err, nilIface), tStore(h, p, tArith("+", tSel(h, p), tInt(1))), h))
	return one(err)
}

// str.contains(s, c): c occurs in s (uninterpreted; the facts below are all that is known about it)
func declContains(fe *FnEnc) {
	fe.declFun("str.contains", []string{sStr, sStr}, sBool)
}

// strings.Cut(s, sep): the part before the first occurrence of sep does not contain sep
func effStringsCut(fe *FnEnc, st *State, callee *ssa.Function, args []RV, pos token.Pos) []RV {
	r := ufTuple("strings.Cut", sStr, sStr, sBool)(fe, st, callee, args, pos)
	if !fe.dry {
		declContains(fe)
		fe.emit(fmt.Sprintf("(assert (not (str.contains %s %s)))", r[0].T.S, fe.val(args[1]).S))
	}
	return r
}

// keepsAbsence: ToLower / TrimSpace never introduce a character that is neither a letter nor white space: for every
// literal known so far that consists of such characters only, absence in the argument means absence in the result
func keepsAbsence(name string) effectFn {
	uf := ufEffect(name, sStr)
	return func(fe *FnEnc, st *State, callee *ssa.Function, args []RV, pos token.Pos) []RV {
		r := uf(fe, st, callee, args, pos)
		if fe.dry {
			return r
		}
		declContains(fe)
		x := fe.val(args[0])
		for _, ln := range fe.litOrder {
			lit := fe.lits[ln]
			ok := lit != ""
			for _, c := range lit {
				if (c >= 'a' && c <= 'z') || (c >= 'A' && c <= 'Z') || c == ' ' || c == '\t' || c == '\n' || c == '\r' || c > 127 {
					ok = false
				}
			}
			if ok {
				fe.emit(fmt.Sprintf("(assert (=> (not (str.contains %s %s)) (not (str.contains %s %s))))", x.S, ln, r[0].T.S, ln))
			}
		}
		return r
	}
}

package main

import (
	"fmt"
	"go/constant"
	"go/types"
	"sort"
	"strings"

	"golang.org/x/tools/go/ssa"
)

// SVal is the value of a spec expression.
type SVal struct {
	T     Term
	Typ   types.Type
	At    *Term // struct stored in the heap at this address (Typ is the struct type)
	AtOld bool
	IsNil bool
	Model string // type name for ghost model lookup (interfaces)
}

type Env struct {
	fe        *FnEnc
	cur       *State
	old       *State
	inOld     bool
	pre       bool
	names     map[string]SVal
	oldNames  map[string]SVal
	bound     map[string]SVal
	useLocals bool
	loop      *Loop
	cf        *ContractFile
	pkg       *types.Package
	depth     int
	absIdx    map[string]absInfo
	tparams   map[string]types.Type // type arguments when a generic contract is applied at an instantiated call site
	pol       int                   // +1: the formula being translated is assumed (positive position); 0: unknown / goal
}

// absInfo: a quantified index variable rebound to an absolute position in a backing array, so that the
// quantifier's trigger (select (select heap arr) p) contains no arithmetic.
type absInfo struct {
	p     Term
	slice string
	old   bool
}

type specErr struct{ msg string }

func (fe *FnEnc) specFail(format string, args ...any) {
	panic(specErr{fmt.Sprintf(format, args...)})
}

func (e *Env) state() *State {
	if e.inOld {
		if e.old == nil {
			e.fe.specFail("old() not available here")
		}
		return e.old
	}
	return e.cur
}

// ---------------------------------------------------------------------
// environments

func (fe *FnEnc) baseEnv(st *State) *Env {
	env := &Env{fe: fe, cur: st, names: map[string]SVal{}, oldNames: map[string]SVal{}, bound: map[string]SVal{}, cf: fe.cf}
	if p := fe.c.pkgOf(fe.fn); p != nil {
		env.pkg = p.Pkg
	}
	return env
}

// postEnv: parameters denote entry values, results are bound, old() is the entry state.
func (fe *FnEnc) postEnv(st *State, rets []RV) *Env {
	env := fe.baseEnv(st)
	env.old = fe.entrySnap()
	for n, rv := range fe.params {
		env.names[n] = SVal{T: rv.T, Typ: rv.Typ}
		env.oldNames[n] = env.names[n]
	}
	if rets != nil {
		fe.bindResults(env, fe.contract, rets)
		// a postcondition may mention a local variable (its value at the return); parameters and results come first
		env.useLocals = true
	}
	return env
}

func (fe *FnEnc) bindResults(env *Env, fc *FuncContract, rets []RV) {
	for i, r := range rets {
		sv := SVal{T: r.T, Typ: r.Typ}
		if i == 0 {
			env.names["result"] = sv
		}
		env.names[fmt.Sprintf("result%d", i)] = sv
		if fc != nil && i < len(fc.Results) && fc.Results[i] != "" {
			env.names[fc.Results[i]] = sv
		}
	}
}

func (fe *FnEnc) entrySnap() *State {
	return &State{pc: tTrue, cells: map[*ssa.Alloc]Term{}, ghost: map[ssa.Value]Term{}, heap: map[string]Term{}, epoch: 0}
}

// loopEnv: names denote current cell values; old(x) is the entry value of parameter x.
func (fe *FnEnc) loopEnv(st *State, l *Loop) *Env {
	env := fe.baseEnv(st)
	env.old = fe.entrySnap()
	env.useLocals = true
	env.loop = l
	for n, rv := range fe.params {
		env.oldNames[n] = SVal{T: rv.T, Typ: rv.Typ}
	}
	return env
}

// ---------------------------------------------------------------------
// name lookup

func (e *Env) lookup(name string) (SVal, bool) {
	fe := e.fe
	if name == "recv" && e.useLocals {
		if _, bound := e.bound[name]; !bound && fe.fn.Signature.Recv() != nil && len(fe.fn.Params) > 0 {
			if _, isName := e.names[name]; !isName {
				name = fe.fn.Params[0].Name()
			}
		}
	}
	if v, ok := e.bound[name]; ok {
		return v, true
	}
	if e.inOld {
		if v, ok := e.oldNames[name]; ok {
			return v, true
		}
	}
	if !e.inOld || !e.useLocals {
		if v, ok := e.names[name]; ok {
			return v, true
		}
	}
	if e.useLocals && !e.inOld {
		if a := fe.findLocal(name, e.loop); a != nil {
			el := a.Type().Underlying().(*types.Pointer).Elem()
			if !a.Heap {
				return SVal{T: fe.cellVal(e.cur, a), Typ: el}, true
			}
			rv := fe.regs[a]
			if rv.A != nil {
				if rv.A.kind == aStruct {
					b := rv.A.base
					return SVal{At: &b, Typ: el}, true
				}
				return SVal{T: fe.load(e.cur, rv.A), Typ: el}, true
			}
		}
		if name == "visited" && e.loop != nil {
			gk := map[ssa.Value]bool{}
			for g := range e.cur.ghost {
				gk[g] = true
			}
			for _, g := range sortedValues(gk) {
				if r, ok := g.(*ssa.Range); ok && (e.loop.blocks[r.Block()] || rangeFeeds(r, e.loop)) {
					return SVal{T: e.cur.ghost[g]}, true
				}
			}
		}
		if name == "visitedCount" && e.loop != nil {
			gk := map[ssa.Value]bool{}
			for g := range e.cur.ghost {
				gk[g] = true
			}
			for _, g := range sortedValues(gk) {
				if ck, ok := g.(countKey); ok && (e.loop.blocks[ck.r.Block()] || rangeFeeds(ck.r, e.loop)) {
					return SVal{T: e.cur.ghost[g], Typ: types.Typ[types.Int]}, true
				}
			}
		}
	}
	// free variables (captured by reference)
	for _, fv := range fe.fn.FreeVars {
		if fv.Name() == name {
			rv := fe.regs[fv]
			el := fv.Type().Underlying().(*types.Pointer).Elem()
			a := fe.addrOf(rv, fv.Type())
			st := e.state()
			if !fe.fvStored(fv) && a.kind != aStruct {
				st = fe.entrySnap() // never assigned by this closure: fixed for the whole call
			}
			if a.kind == aStruct {
				b := a.base
				return SVal{At: &b, Typ: el, AtOld: e.inOld}, true
			}
			return SVal{T: fe.load(st, a), Typ: el}, true
		}
	}
	if v, ok := e.names[name]; ok {
		return v, true
	}
	// package scope
	if e.pkg != nil {
		if obj := e.pkg.Scope().Lookup(name); obj != nil {
			return e.objVal(obj)
		}
	}
	// predicates written in another package's contract file name that package's constants unqualified
	var found types.Object
	for _, k := range sortedKeys(fe.c.contracts) {
		if sp := fe.c.pkgs[k]; sp != nil {
			if obj := sp.Pkg.Scope().Lookup(name); obj != nil {
				if _, isConst := obj.(*types.Const); isConst {
					if found != nil {
						return SVal{}, false
					}
					found = obj
				}
			}
		}
	}
	if found != nil {
		return e.objVal(found)
	}
	return SVal{}, false
}

func rangeFeeds(r *ssa.Range, l *Loop) bool {
	for _, ref := range *r.Referrers() {
		if n, ok := ref.(*ssa.Next); ok && l.blocks[n.Block()] {
			return true
		}
	}
	return false
}

func (e *Env) objVal(obj types.Object) (SVal, bool) {
	fe := e.fe
	switch o := obj.(type) {
	case *types.Const:
		switch o.Val().Kind() {
		case constant.String:
			return SVal{T: fe.strLit(constant.StringVal(o.Val())), Typ: o.Type()}, true
		case constant.Int:
			return SVal{T: tIntS(o.Val().ExactString()), Typ: o.Type()}, true
		case constant.Bool:
			return SVal{T: tBool(constant.BoolVal(o.Val())), Typ: o.Type()}, true
		}
	case *types.Var:
		return SVal{T: fe.globalVal(e.state(), o.Pkg().Name(), o.Name(), o.Type()), Typ: o.Type()}, true
	}
	return SVal{}, false
}

// findLocal finds the local variable (Alloc) with the given source name; inside a loop clause
// a variable assigned in that loop is preferred. name#k picks the k-th declaration.
func (fe *FnEnc) findLocal(name string, l *Loop) *ssa.Alloc {
	name = fe.renameName(name)
	want := 0
	if i := strings.Index(name, "#"); i >= 0 {
		fmt.Sscanf(name[i+1:], "%d", &want)
		name = name[:i]
	}
	var cands []*ssa.Alloc
	for _, b := range fe.fn.Blocks {
		for _, ins := range b.Instrs {
			if a, ok := ins.(*ssa.Alloc); ok && a.Comment == name {
				cands = append(cands, a)
			}
		}
	}
	if len(cands) == 0 {
		return nil
	}
	// name#k is the k-th declaration of the name in source order (not in block order, which depends on how the
	// control flow graph was built)
	if want > 0 {
		byPos := append([]*ssa.Alloc{}, cands...)
		sort.SliceStable(byPos, func(i, j int) bool { return byPos[i].Pos() < byPos[j].Pos() })
		if want <= len(byPos) {
			return byPos[want-1]
		}
		return nil
	}
	if l != nil {
		// innermost preference: a candidate written in this loop but declared in the smallest enclosing region
		var best *ssa.Alloc
		for _, a := range cands {
			if l.writes.cells[a] {
				if best == nil || (l.blocks[a.Block()] && !l.blocks[best.Block()]) {
					best = a
				}
			}
		}
		// the range index of this loop is the one stored in the header
		if name == "rangeindex" {
			for _, a := range cands {
				for _, ref := range *a.Referrers() {
					if s, ok := ref.(*ssa.Store); ok && s.Block() == l.header {
						return a
					}
				}
			}
		}
		if best != nil {
			return best
		}
	}
	return cands[0]
}

// ---------------------------------------------------------------------
// types named in specs

func (e *Env) resolveType(name string) types.Type {
	if t, ok := e.tparams[name]; ok {
		return t
	}
	switch name {
	case "Ref":
		return types.Typ[types.Int]
	case "int":
		return types.Typ[types.Int]
	case "int64":
		return types.Typ[types.Int64]
	case "string":
		return types.Typ[types.String]
	case "bool":
		return types.Typ[types.Bool]
	}
	if obj := types.Universe.Lookup(name); obj != nil {
		if tn, ok := obj.(*types.TypeName); ok {
			return tn.Type()
		}
	}
	// type parameters of the function under verification (generic bodies)
	for f := e.fe.fn; f != nil; f = f.Parent() {
		if tps := f.TypeParams(); tps != nil {
			for i := 0; i < tps.Len(); i++ {
				if tps.At(i).Obj().Name() == name {
					return tps.At(i)
				}
			}
		}
		if recv := f.Signature.Recv(); recv != nil {
			if n, ok := derefNamed(recv.Type()); ok && n.TypeArgs() != nil {
				for i := 0; i < n.TypeArgs().Len(); i++ {
					if tp, ok := n.TypeArgs().At(i).(*types.TypeParam); ok && tp.Obj().Name() == name {
						return tp
					}
				}
			}
		}
	}
	if strings.HasPrefix(name, "*") {
		return types.NewPointer(e.resolveType(name[1:]))
	}
	if strings.HasPrefix(name, "[]") {
		return types.NewSlice(e.resolveType(name[2:]))
	}
	if e.pkg != nil {
		if p, n, ok := strings.Cut(name, "."); ok {
			for _, imp := range e.pkg.Imports() {
				if imp.Name() == p {
					if obj := imp.Scope().Lookup(n); obj != nil {
						return obj.Type()
					}
				}
			}
			// any loaded package of that name
			for path, sp := range e.fe.c.pkgs {
				_ = path
				if sp.Pkg.Name() == p {
					if obj := sp.Pkg.Scope().Lookup(n); obj != nil {
						return obj.Type()
					}
				}
			}
		} else if obj := e.pkg.Scope().Lookup(name); obj != nil {
			return obj.Type()
		}
	}
	e.fe.specFail("unknown type %q", name)
	return nil
}

// ---------------------------------------------------------------------
// translation

func (fe *FnEnc) trBool(ex Expr, env *Env) (res Term) {
	defer func() {
		if r := recover(); r != nil {
			if se, ok := r.(specErr); ok {
				// a callee's postcondition about one of its own locals says nothing to the caller: skipped, not an error
				if env.pol == 1 && strings.HasPrefix(fe.qctx, "call.") && strings.HasPrefix(se.msg, "unknown name") {
					res = tTrue
					return
				}
				fe.unsupported("spec: %s in %s", se.msg, exprString(ex))
				res = fe.fresh("specerr", sBool)
				return
			}
			panic(r)
		}
	}()
	v := fe.tr(ex, env)
	if v.T.Sort != sBool {
		fe.specFail("expected boolean, got %s", v.T.Sort)
	}
	return v.T
}

func (fe *FnEnc) trVal(ex Expr, env *Env) (res SVal) {
	defer func() {
		if r := recover(); r != nil {
			if se, ok := r.(specErr); ok {
				fe.unsupported("spec: %s in %s", se.msg, exprString(ex))
				res = SVal{T: fe.fresh("specerr", sInt)}
				return
			}
			panic(r)
		}
	}()
	return fe.mat(fe.tr(ex, env), env)
}

// mat materialises heap-resident structs into datatype values.
func (fe *FnEnc) mat(v SVal, env *Env) SVal {
	if v.At != nil {
		st := env.cur
		if v.AtOld {
			st = env.old
		}
		t := fe.loadStruct(st, v.Typ, *v.At, false)
		return SVal{T: t, Typ: v.Typ}
	}
	return v
}

func derefType(t types.Type) (types.Type, bool) {
	if t == nil {
		return nil, false
	}
	if p, ok := t.Underlying().(*types.Pointer); ok {
		return p.Elem(), true
	}
	return t, false
}

func (fe *FnEnc) tr(ex Expr, env *Env) SVal {
	switch x := ex.(type) {
	case EInt:
		return SVal{T: tIntS(x.V), Typ: types.Typ[types.Int]}
	case EStr:
		return SVal{T: fe.strLit(x.V), Typ: types.Typ[types.String]}
	case EBool:
		return SVal{T: tBool(x.V), Typ: types.Typ[types.Bool]}
	case ENil:
		return SVal{IsNil: true, T: tInt(0)}
	case EId:
		v, ok := env.lookup(x.Name)
		if !ok {
			fe.specFail("unknown name %q", x.Name)
		}
		return v
	case ESel:
		return fe.trSel(x, env)
	case EIdx:
		return fe.trIdx(x, env)
	case ESub:
		s := fe.mat(fe.tr(x.X, env), env)
		if s.T.Sort != sSlice {
			fe.specFail("slicing a non-slice")
		}
		lo, hi := tInt(0), slLen(s.T)
		if x.Lo != nil {
			lo = fe.tr(x.Lo, env).T
		}
		if x.Hi != nil {
			hi = fe.tr(x.Hi, env).T
		}
		return SVal{T: mkSlice(slArr(s.T), tArith("+", slOff(s.T), lo), tArith("-", hi, lo), tArith("-", slCap(s.T), lo)), Typ: s.Typ}
	case ECall:
		return fe.trCall(x, env)
	case EUn:
		switch x.Op {
		case "!":
			e2 := *env
			e2.pol = -env.pol
			return SVal{T: tNot(fe.tr(x.X, &e2).T), Typ: types.Typ[types.Bool]}
		case "-":
			v := fe.tr(x.X, env)
			return SVal{T: Term{"(- " + v.T.S + ")", v.T.Sort}, Typ: v.Typ}
		case "*":
			v := fe.tr(x.X, env)
			el, isPtr := derefType(v.Typ)
			if !isPtr {
				fe.specFail("deref of non-pointer")
			}
			if structOf(el) != nil {
				b := v.T
				return SVal{At: &b, Typ: el, AtOld: env.inOld}
			}
			a := &Addr{kind: aCell, base: v.T, T: el}
			return SVal{T: fe.load(env.state(), a), Typ: el}
		}
	case EBin:
		return fe.trBin(x, env)
	case ECond:
		ec := *env
		ec.pol = 0
		c := fe.tr(x.C, &ec).T
		a := fe.mat(fe.tr(x.A, env), env)
		b := fe.mat(fe.tr(x.B, env), env)
		if a.IsNil {
			a.T = zeroOfSort(b.T.Sort)
		}
		if b.IsNil {
			b.T = zeroOfSort(a.T.Sort)
		}
		t := a.Typ
		if t == nil {
			t = b.Typ
		}
		return SVal{T: tIte(c, a.T, b.T), Typ: t}
	case EIn:
		k := fe.mat(fe.tr(x.K, env), env)
		m := fe.tr(x.M, env)
		if m.Typ != nil {
			if mt, ok := m.Typ.Underlying().(*types.Map); ok {
				return SVal{T: fe.mapHas(env.state(), mt, m.T, k.T, false), Typ: types.Typ[types.Bool]}
			}
		}
		if strings.HasPrefix(m.T.Sort, "(Array ") {
			return SVal{T: tSel(m.T, k.T), Typ: types.Typ[types.Bool]}
		}
		fe.specFail("'in' on a non-map")
	case EQuant:
		return fe.trQuant(x, env)
	}
	fe.specFail("unsupported expression %s", exprString(ex))
	return SVal{}
}

// findPrimaryIndex looks for an occurrence X[v] where X does not mention the quantifier's own variables.
func findPrimaryIndex(ex Expr, v string, own map[string]bool, inOld bool) (Expr, bool, bool) {
	var res Expr
	var resOld, found bool
	var walk func(e Expr, old bool)
	mentions := func(e Expr) bool {
		m := false
		var w func(e Expr)
		w = func(e Expr) {
			switch x := e.(type) {
			case EId:
				if own[x.Name] {
					m = true
				}
			case ESel:
				w(x.X)
			case EIdx:
				w(x.X)
				w(x.I)
			case ESub:
				w(x.X)
				if x.Lo != nil {
					w(x.Lo)
				}
				if x.Hi != nil {
					w(x.Hi)
				}
			case ECall:
				for _, a := range x.Args {
					w(a)
				}
			case EUn:
				w(x.X)
			case EBin:
				w(x.L)
				w(x.R)
			case ECond:
				w(x.C)
				w(x.A)
				w(x.B)
			case EIn:
				w(x.K)
				w(x.M)
			case EQuant:
				w(x.Body)
			}
		}
		w(e)
		return m
	}
	walk = func(e Expr, old bool) {
		if found {
			return
		}
		switch x := e.(type) {
		case EIdx:
			if id, ok := x.I.(EId); ok && id.Name == v && !mentions(x.X) {
				res, resOld, found = x.X, old, true
				return
			}
			walk(x.X, old)
			walk(x.I, old)
		case ESel:
			walk(x.X, old)
		case ESub:
			walk(x.X, old)
		case ECall:
			o := old || x.Fn == "old"
			if x.Fn == "now" {
				o = false
			}
			for _, a := range x.Args {
				walk(a, o)
			}
		case EUn:
			walk(x.X, old)
		case EBin:
			walk(x.L, old)
			walk(x.R, old)
		case ECond:
			walk(x.C, old)
			walk(x.A, old)
			walk(x.B, old)
		case EIn:
			walk(x.K, old)
			walk(x.M, old)
		case EQuant:
			for _, b := range x.Vars {
				if b.Name == v {
					return
				}
			}
			walk(x.Body, old)
		}
	}
	walk(ex, inOld)
	return res, resOld, found
}

// binderType resolves the declared type of a quantified variable; a type-parameter name of a generic predicate
// (forall key: k) used outside the generic code is inferred from a map the variable indexes.
func (fe *FnEnc) binderType(b Binder, body Expr, env *Env) (t types.Type) {
	func() {
		defer func() {
			if r := recover(); r != nil {
				if _, ok := r.(specErr); !ok {
					panic(r)
				}
				t = nil
			}
		}()
		t = env.resolveType(b.Type)
	}()
	if t != nil {
		return t
	}
	var found types.Type
	var walk func(e Expr)
	try := func(m Expr) {
		if found != nil {
			return
		}
		defer func() {
			if r := recover(); r != nil {
				if _, ok := r.(specErr); !ok {
					panic(r)
				}
			}
		}()
		v := fe.tr(m, env)
		if v.Typ != nil {
			if mt, ok := v.Typ.Underlying().(*types.Map); ok {
				found = mt.Key()
			}
		}
	}
	walk = func(e Expr) {
		switch x := e.(type) {
		case EIn:
			if id, ok := x.K.(EId); ok && id.Name == b.Name {
				try(x.M)
			}
			walk(x.K)
			walk(x.M)
		case EIdx:
			if id, ok := x.I.(EId); ok && id.Name == b.Name {
				try(x.X)
			}
			walk(x.X)
			walk(x.I)
		case ESel:
			walk(x.X)
		case ECall:
			for _, a := range x.Args {
				walk(a)
			}
		case EUn:
			walk(x.X)
		case EBin:
			walk(x.L)
			walk(x.R)
		case ECond:
			walk(x.C)
			walk(x.A)
			walk(x.B)
		case EQuant:
			walk(x.Body)
		}
	}
	walk(body)
	if found == nil {
		fe.specFail("unknown type %q", b.Type)
	}
	return found
}

func (fe *FnEnc) trQuant(x EQuant, env *Env) SVal {
	// predicates are expanded first so that index expressions are visible
	body0 := fe.expandPreds(x.Body, env, 0)
	e2 := *env
	e2.bound = map[string]SVal{}
	for k, v := range env.bound {
		e2.bound[k] = v
	}
	e2.absIdx = map[string]absInfo{}
	for k, v := range env.absIdx {
		e2.absIdx[k] = v
	}
	own := map[string]bool{}
	for _, b := range x.Vars {
		own[b.Name] = true
		delete(e2.absIdx, b.Name)
	}
	var decls []string
	var pats []string
	allAbs := true
	for _, b := range x.Vars {
		t := fe.binderType(b, body0, env)
		fe.nfresh++
		srt := fe.sorts.sortOf(t)
		if srt == sInt && len(x.Trigs) == 0 {
			if sx, isOld, ok := findPrimaryIndex(body0, b.Name, own, env.inOld); ok {
				// evaluate the slice outside the quantifier
				eS := *env
				eS.inOld = isOld
				func() {
					defer func() {
						if r := recover(); r != nil {
							if _, ok := r.(specErr); !ok {
								panic(r)
							}
						}
					}()
					sv := fe.mat(fe.tr(sx, &eS), &eS)
					if sv.T.Sort == sSlice && sv.Typ != nil {
						n := fmt.Sprintf("%s!p%d", b.Name, fe.nfresh)
						p := Term{q(n), sInt}
						e2.bound[b.Name] = SVal{T: tArith("-", p, slOff(sv.T)), Typ: t}
						e2.absIdx[b.Name] = absInfo{p: p, slice: exprString(sx), old: isOld}
						decls = append(decls, "("+q(n)+" Int)")
						el := sv.Typ.Underlying().(*types.Slice).Elem()
						es := fe.sorts.sortOf(el)
						st := eS.state()
						h := fe.getComp(st, compElems(es), arrSort(sInt, arrSort(sInt, es)))
						pats = append(pats, tSel(tSel(h, slArr(sv.T)), p).S)
					}
				}()
				if _, ok := e2.absIdx[b.Name]; ok {
					continue
				}
			}
		}
		allAbs = false
		n := fmt.Sprintf("%s!q%d", b.Name, fe.nfresh)
		e2.bound[b.Name] = SVal{T: Term{q(n), srt}, Typ: t}
		decls = append(decls, "("+q(n)+" "+srt+")")
	}
	body := fe.tr(body0, &e2)
	if body.T.Sort != sBool {
		fe.specFail("quantifier body is not boolean")
	}
	bs := body.T.S
	fe.nfresh++
	qid := fmt.Sprintf(" :qid |%s.%d|", sanitizeFile(fe.qctx), fe.nfresh)
	if allAbs && len(pats) > 0 {
		bs = "(! " + bs + " :pattern (" + strings.Join(pats, " ") + ")" + qid + ")"
	} else if len(x.Trigs) > 0 {
		bs = "(! " + bs
		for _, tr := range x.Trigs {
			var ts []string
			for _, t := range tr {
				ts = append(ts, fe.mat(fe.tr(t, &e2), &e2).T.S)
			}
			bs += " :pattern (" + strings.Join(ts, " ") + ")"
		}
		bs += qid + ")"
	} else {
		bs = "(! " + bs + qid + ")"
	}
	kw := "exists"
	if x.Forall {
		kw = "forall"
	}
	return SVal{T: Term{"(" + kw + " (" + strings.Join(decls, " ") + ") " + bs + ")", sBool}, Typ: types.Typ[types.Bool]}
}

// expandPreds macro-expands predicate calls (AST level).
func (fe *FnEnc) expandPreds(ex Expr, env *Env, depth int) Expr {
	if depth > 20 {
		return ex
	}
	rec := func(e Expr) Expr { return fe.expandPreds(e, env, depth) }
	switch x := ex.(type) {
	case ECall:
		args := make([]Expr, len(x.Args))
		for i, a := range x.Args {
			args[i] = rec(a)
		}
		if p := fe.findPred(env, x.Fn); p != nil && len(p.Params) == len(args) {
			m := map[string]Expr{}
			for i, pn := range p.Params {
				m[pn] = args[i]
			}
			return fe.expandPreds(substExpr(p.Body, m), env, depth+1)
		}
		return ECall{x.Fn, args}
	case ESel:
		return ESel{rec(x.X), x.F}
	case EIdx:
		return EIdx{rec(x.X), rec(x.I)}
	case ESub:
		var lo, hi Expr
		if x.Lo != nil {
			lo = rec(x.Lo)
		}
		if x.Hi != nil {
			hi = rec(x.Hi)
		}
		return ESub{rec(x.X), lo, hi}
	case EUn:
		return EUn{x.Op, rec(x.X)}
	case EBin:
		return EBin{x.Op, rec(x.L), rec(x.R)}
	case ECond:
		return ECond{rec(x.C), rec(x.A), rec(x.B)}
	case EIn:
		return EIn{rec(x.K), rec(x.M)}
	case EQuant:
		var trigs [][]Expr
		for _, tr := range x.Trigs {
			var t2 []Expr
			for _, t := range tr {
				t2 = append(t2, rec(t))
			}
			trigs = append(trigs, t2)
		}
		return EQuant{x.Forall, x.Vars, rec(x.Body), trigs}
	}
	return ex
}

func (fe *FnEnc) modelFields(t types.Type) (string, []ModelField) {
	if t == nil {
		return "", nil
	}
	name := recvTypeName(t)
	if name == "" {
		return "", nil
	}
	for _, cf := range fe.c.contracts {
		if mf, ok := cf.Models[name]; ok {
			return name, mf
		}
	}
	return name, nil
}

func (fe *FnEnc) modelComp(env *Env, tname string, mf ModelField) (string, string) {
	var srt string
	if strings.HasPrefix(mf.Type, "set[") {
		srt = arrSort(fe.sorts.sortOf(env.resolveType(mf.Type[4:len(mf.Type)-1])), sBool)
	} else if strings.HasPrefix(mf.Type, "fun[") {
		j := strings.Index(mf.Type, "]")
		srt = arrSort(fe.sorts.sortOf(env.resolveType(mf.Type[4:j])), fe.sorts.sortOf(env.resolveType(mf.Type[j+1:])))
	} else {
		srt = fe.sorts.sortOf(env.resolveType(mf.Type))
	}
	return "M." + tname + "." + mf.Name, arrSort(sInt, srt)
}

func (fe *FnEnc) trSel(x ESel, env *Env) SVal {
	// qualified package-level name?
	if id, ok := x.X.(EId); ok {
		if _, bound := env.lookup(id.Name); !bound && env.pkg != nil {
			for _, imp := range env.pkg.Imports() {
				if imp.Name() == id.Name {
					if obj := imp.Scope().Lookup(x.F); obj != nil {
						if v, ok := env.objVal(obj); ok {
							return v
						}
					}
				}
			}
			for _, sp := range fe.c.pkgs {
				if sp.Pkg.Name() == id.Name {
					if obj := sp.Pkg.Scope().Lookup(x.F); obj != nil {
						if v, ok := env.objVal(obj); ok {
							return v
						}
					}
				}
			}
		}
	}
	xv := fe.tr(x.X, env)
	st := env.state()
	// ghost model fields
	if tn, mfs := fe.modelFields(xv.Typ); mfs != nil {
		for _, mf := range mfs {
			if mf.Name == x.F {
				cn, cs := fe.modelComp(env, tn, mf)
				key := xv.T
				if xv.At != nil {
					key = *xv.At
				} else if xv.T.Sort == sIface {
					key = ifVal(xv.T)
				}
				h := fe.getComp(st, cn, cs)
				var ft types.Type
				if !strings.HasPrefix(mf.Type, "set[") && !strings.HasPrefix(mf.Type, "fun[") {
					ft = env.resolveType(mf.Type)
				}
				return SVal{T: tSel(h, key), Typ: ft}
			}
		}
	}
	var structT types.Type
	var base *Term
	atOld := env.inOld
	if xv.At != nil {
		structT, base, atOld = xv.Typ, xv.At, xv.AtOld
	} else if el, isPtr := derefType(xv.Typ); isPtr && structOf(el) != nil {
		structT = el
		b := xv.T
		base = &b
	} else if xv.Typ != nil && structOf(xv.Typ) != nil {
		// struct value
		s := structOf(xv.Typ)
		for i := 0; i < s.NumFields(); i++ {
			if s.Field(i).Name() == x.F {
				return SVal{T: fe.sorts.fieldSel(xv.Typ, i, xv.T), Typ: s.Field(i).Type()}
			}
		}
		fe.specFail("no field %s in %s", x.F, xv.Typ)
	} else {
		fe.specFail("selector %s on a value of type %v", x.F, xv.Typ)
	}
	s := structOf(structT)
	for i := 0; i < s.NumFields(); i++ {
		if s.Field(i).Name() == x.F {
			ft := s.Field(i).Type()
			if structOf(ft) != nil {
				sa := fe.subAddr(structT, i, *base)
				return SVal{At: &sa, Typ: ft, AtOld: atOld}
			}
			hst := env.cur
			if atOld {
				hst = env.old
			}
			return SVal{T: fe.loadField(hst, structT, i, *base, false), Typ: ft}
		}
	}
	fe.specFail("no field %s in %s", x.F, structT)
	return SVal{}
}

func (fe *FnEnc) trIdx(x EIdx, env *Env) SVal {
	xv := fe.mat(fe.tr(x.X, env), env)
	iv := fe.mat(fe.tr(x.I, env), env)
	st := env.state()
	if xv.Typ != nil {
		switch t := xv.Typ.Underlying().(type) {
		case *types.Slice:
			es := fe.sorts.sortOf(t.Elem())
			fe.compT[compElems(es)] = t.Elem()
			h := fe.getComp(st, compElems(es), arrSort(sInt, arrSort(sInt, es)))
			if id, ok := x.I.(EId); ok {
				if ai, ok := env.absIdx[id.Name]; ok && ai.slice == exprString(x.X) && ai.old == env.inOld {
					return SVal{T: tSel(tSel(h, slArr(xv.T)), ai.p), Typ: t.Elem()}
				}
			}
			return SVal{T: tSel(tSel(h, slArr(xv.T)), tArith("+", slOff(xv.T), iv.T)), Typ: t.Elem()}
		case *types.Map:
			return SVal{T: fe.mapGet(st, t, xv.T, iv.T, false), Typ: t.Elem()}
		case *types.Array:
			return SVal{T: tSel(xv.T, iv.T), Typ: t.Elem()}
		}
	}
	if strings.HasPrefix(xv.T.Sort, "(Array ") {
		return SVal{T: tSel(xv.T, iv.T)}
	}
	fe.specFail("indexing a value of type %v", xv.Typ)
	return SVal{}
}

func (fe *FnEnc) findPred(env *Env, name string) *PredDef {
	if env.cf != nil {
		if p, ok := env.cf.Preds[name]; ok {
			return p
		}
	}
	if _, n, ok := strings.Cut(name, "."); ok {
		name = n
	}
	for _, k := range sortedKeys(fe.c.contracts) {
		if p, ok := fe.c.contracts[k].Preds[name]; ok {
			return p
		}
	}
	return nil
}

func (fe *FnEnc) findGhost(env *Env, name string) *GhostFunc {
	if _, n, ok := strings.Cut(name, "."); ok {
		name = n
	}
	for _, k := range sortedKeys(fe.c.contracts) {
		if g, ok := fe.c.contracts[k].Ghosts[name]; ok {
			return g
		}
	}
	return nil
}

func (fe *FnEnc) ghostSort(env *Env, tn string) string {
	if strings.HasPrefix(tn, "set[") {
		return arrSort(fe.ghostSort(env, tn[4:len(tn)-1]), sBool)
	}
	switch tn {
	case "Bytes":
		if !fe.declared["Bytes"] {
			fe.declared["Bytes"] = true
			fe.emit("(declare-sort Bytes 0)")
		}
		return "Bytes"
	case "Ref":
		return sInt
	case "error":
		return sIface
	}
	return fe.sorts.sortOf(env.resolveType(tn))
}

func (fe *FnEnc) trCall(x ECall, env *Env) SVal {
	switch x.Fn {
	case "len", "cap":
		v := fe.mat(fe.tr(x.Args[0], env), env)
		if v.T.Sort == sSlice {
			if x.Fn == "len" {
				return SVal{T: slLen(v.T), Typ: types.Typ[types.Int]}
			}
			return SVal{T: slCap(v.T), Typ: types.Typ[types.Int]}
		}
		if v.T.Sort == sStr {
			return SVal{T: Term{app("strlen", v.T), sInt}, Typ: types.Typ[types.Int]}
		}
		if v.Typ != nil {
			if mt, ok := v.Typ.Underlying().(*types.Map); ok {
				return SVal{T: fe.mapLen(env.state(), mt, v.T, false), Typ: types.Typ[types.Int]}
			}
		}
		fe.specFail("len of %v", v.Typ)
	case "old":
		e2 := *env
		e2.inOld = true
		return fe.mat(fe.tr(x.Args[0], &e2), &e2)
	case "held": // held(c.mu): the mutex is in the ghost held-set
		v := fe.tr(x.Args[0], env)
		var addr Term
		switch {
		case v.At != nil:
			addr = *v.At
		case v.Typ != nil:
			if _, ok := v.Typ.Underlying().(*types.Pointer); ok {
				addr = v.T
			}
		}
		if addr.S == "" {
			fe.specFail("held() needs a mutex field or pointer")
		}
		h := fe.getComp(env.state(), "held", arrSort(sInt, sBool))
		return SVal{T: tSel(h, addr), Typ: types.Typ[types.Bool]}
	case "header": // header(w, "Name"): value set on the response writer's header
		w := fe.tr(x.Args[0], env)
		k := fe.tr(x.Args[1], env)
		fe.declFun("resp.hdr", []string{sInt}, sInt)
		m := Term{app("resp.hdr", ifVal(w.T)), sInt}
		h := fe.getComp(env.state(), hdrVals, arrSort(sInt, arrSort(sStr, sStr)))
		return SVal{T: tSel(tSel(h, m), canonKey(fe, k.T)), Typ: types.Typ[types.String]}
	case "reqheader": // reqheader(r, "Name")
		r := fe.tr(x.Args[0], env)
		k := fe.tr(x.Args[1], env)
		e2 := *env
		hv := fe.tr(ESel{x.Args[0], "Header"}, &e2)
		_ = r
		h := fe.getComp(env.state(), hdrVals, arrSort(sInt, arrSort(sStr, sStr)))
		return SVal{T: tSel(tSel(h, hv.T), canonKey(fe, k.T)), Typ: types.Typ[types.String]}
	case "query": // query(r, "name"): r.URL.Query().Get("name")
		k := fe.tr(x.Args[1], env)
		raw := fe.tr(ESel{ESel{x.Args[0], "URL"}, "RawQuery"}, env)
		fe.declFun("url.parseQuery", []string{sStr}, sInt)
		fe.declFun("url.valuesGet", []string{sInt, sStr}, sStr)
		return SVal{T: Term{app("url.valuesGet", Term{app("url.parseQuery", raw.T), sInt}, k.T), sStr}, Typ: types.Typ[types.String]}
	case "status": // status(w): the response status recorded for any writer value (0: none yet)
		w := fe.mat(fe.tr(x.Args[0], env), env)
		k := w.T
		if k.Sort == sIface {
			k = ifVal(k)
		}
		h := fe.getComp(env.state(), respStatus, arrSort(sInt, sInt))
		return SVal{T: tSel(h, k), Typ: types.Typ[types.Int]}
	case "served", "servedOf": // served(w): the response was produced by http.ServeContent; servedOf(w): from the reader handed out for this digest
		w := fe.mat(fe.tr(x.Args[0], env), env)
		k := w.T
		if k.Sort == sIface {
			k = ifVal(k)
		}
		if x.Fn == "served" {
			return SVal{T: tSel(fe.getComp(env.state(), respServed, arrSort(sInt, sBool)), k), Typ: types.Typ[types.Bool]}
		}
		return SVal{T: tSel(fe.getComp(env.state(), respServedOf, arrSort(sInt, sStr)), k), Typ: types.Typ[types.String]}
	case "lastIndex": // lastIndex(s, sep): strings.LastIndex
		a := fe.mat(fe.tr(x.Args[0], env), env)
		b := fe.mat(fe.tr(x.Args[1], env), env)
		fe.declFun("strings.LastIndex", []string{sStr, sStr}, sInt)
		return SVal{T: Term{app("strings.LastIndex", a.T, b.T), sInt}, Typ: types.Typ[types.Int]}
	case "substr": // substr(s, lo, hi): s[lo:hi]
		a := fe.mat(fe.tr(x.Args[0], env), env)
		lo := fe.mat(fe.tr(x.Args[1], env), env)
		hi := fe.mat(fe.tr(x.Args[2], env), env)
		return SVal{T: Term{app("substr", a.T, lo.T, hi.T), sStr}, Typ: types.Typ[types.String]}
	case "same": // same(Type.field) / same(ghost name): a whole ghost component is unchanged since the old state
		name := exprName(x.Args[0])
		var cn, cs string
		if s, ok := ghostCompSorts[name]; ok {
			cn, cs = name, s
		} else {
			cn, cs = fe.resolveModifies(name)
		}
		return SVal{T: tEq(fe.getComp(env.cur, cn, cs), fe.getComp(env.old, cn, cs)), Typ: types.Typ[types.Bool]}
	case "flag": // flag("name"): the variable a command line flag of that name was registered for (0: none)
		k := fe.tr(x.Args[0], env)
		return SVal{T: tSel(fe.getComp(env.state(), "FLAGS", arrSort(sStr, sInt)), k.T), Typ: types.Typ[types.UnsafePointer]}
	case "teeA", "teeB": // what a writer made by io.MultiWriter(a, b) writes to (as object identities)
		v := fe.mat(fe.tr(x.Args[0], env), env)
		fe.declFun("tee.a", []string{sInt}, sInt)
		fe.declFun("tee.b", []string{sInt}, sInt)
		k := v.T
		if k.Sort == sIface {
			k = ifVal(k)
		}
		fn := "tee.a"
		if x.Fn == "teeB" {
			fn = "tee.b"
		}
		return SVal{T: Term{app(fn, k), sInt}, Typ: types.Typ[types.UnsafePointer]}
	case "hashOf": // the hash object of a digester
		v := fe.mat(fe.tr(x.Args[0], env), env)
		fe.declFun("digester.hash", []string{sInt}, sInt)
		k := v.T
		if k.Sort == sIface {
			k = ifVal(k)
		}
		return SVal{T: Term{app("digester.hash", k), sInt}, Typ: types.Typ[types.UnsafePointer]}
	case "objOf": // identity of the object behind an interface value or pointer
		v := fe.mat(fe.tr(x.Args[0], env), env)
		k := v.T
		if k.Sort == sIface {
			k = ifVal(k)
		}
		return SVal{T: k, Typ: types.Typ[types.UnsafePointer]}
	case "inside": // inside(p, dir): path p is below directory dir
		declPathFuns(fe)
		a := fe.mat(fe.tr(x.Args[0], env), env)
		b := fe.mat(fe.tr(x.Args[1], env), env)
		return SVal{T: Term{app("path.inside", a.T, b.T), sBool}, Typ: types.Typ[types.Bool]}
	case "safeRel": // safeRel(s): s is a relative path without .. elements
		declPathFuns(fe)
		a := fe.mat(fe.tr(x.Args[0], env), env)
		pathSafeFacts(fe, a.T)
		return SVal{T: Term{app("path.safe", a.T), sBool}, Typ: types.Typ[types.Bool]}
	case "digestNow": // the digest a digester reports now
		v := fe.mat(fe.tr(x.Args[0], env), env)
		k := v.T
		if k.Sort == sIface {
			k = ifVal(k)
		}
		return SVal{T: digestNowTerm(fe, env.state(), k), Typ: env.resolveType("digest.Digest")}
	case "mtimeOf": // modification time last set for a path through os.Chtimes (ghost)
		v := fe.mat(fe.tr(x.Args[0], env), env)
		return SVal{T: tSel(fe.getComp(env.state(), "MT", arrSort(sStr, sInt)), v.T), Typ: env.resolveType("time.Time")}
	case "spawned": // spawned(Key): how many go statements of this call started the function Key (e.g. Cache.pruneCount)
		cn := "SPAWN." + exprString(x.Args[0])
		return SVal{T: tArith("-", fe.getComp(env.state(), cn, sInt), fe.oldComp(cn, sInt)), Typ: types.Typ[types.Int]}
	case "siteCount": // siteCount(Key, k): how often the k-th call site of Key (in source order of execution) ran during this call
		key := exprString(x.Args[0])
		k := exprString(x.Args[1])
		cn := fmt.Sprintf("SITE.%s#%s", key, k)
		cur := fe.getComp(env.state(), cn, sInt)
		old := fe.oldComp(cn, sInt)
		return SVal{T: tArith("-", cur, old), Typ: types.Typ[types.Int]}
	case "contains": // contains(s, c): strings.Contains (only what Cut, ToLower and TrimSpace say about it is known)
		declContains(fe)
		a := fe.mat(fe.tr(x.Args[0], env), env)
		b := fe.mat(fe.tr(x.Args[1], env), env)
		return SVal{T: Term{app("str.contains", a.T, b.T), sBool}, Typ: types.Typ[types.Bool]}
	case "renamedTo": // renamedTo(path): how often os.Rename(_, path) succeeded (ghost)
		a := fe.mat(fe.tr(x.Args[0], env), env)
		return SVal{T: tSel(fe.getComp(env.state(), "RENAMED", arrSort(sStr, sInt)), a.T), Typ: types.Typ[types.Int]}
	case "wroteCount": // wroteCount(path): how often os.WriteFile(path, ...) succeeded (ghost)
		a := fe.mat(fe.tr(x.Args[0], env), env)
		return SVal{T: tSel(fe.getComp(env.state(), "WROTE", arrSort(sStr, sInt)), a.T), Typ: types.Typ[types.Int]}
	case "lastEncodeTarget": // identity of the writer the last json Encode wrote into
		return SVal{T: fe.getComp(env.state(), "lastEncodeTarget", sInt), Typ: types.Typ[types.UnsafePointer]}
	case "pathJoin": // filepath.Join(a, b) for two elements
		declPathFuns(fe)
		a := fe.mat(fe.tr(x.Args[0], env), env)
		b := fe.mat(fe.tr(x.Args[1], env), env)
		return SVal{T: Term{app("path.join", a.T, b.T), sStr}, Typ: types.Typ[types.String]}
	case "algOf", "hexOf": // the two parts of a digest
		a := fe.mat(fe.tr(x.Args[0], env), env)
		fn := q("digest.alg")
		if x.Fn == "hexOf" {
			fn = q("digest.hex")
		}
		fe.declFun(fn, []string{sStr}, sStr)
		return SVal{T: Term{app(fn, a.T), sStr}, Typ: types.Typ[types.String]}
	case "fswrites": // number of file system mutations so far (ghost)
		return SVal{T: fe.getComp(env.state(), "fswrites", sInt), Typ: types.Typ[types.Int]}
	case "truncated": // a body was read through a LimitReader that cut it short
		return SVal{T: fe.getComp(env.state(), "truncated", sBool), Typ: types.Typ[types.Bool]}
	case "blobReady":
		return SVal{T: fe.getComp(env.state(), "blobReady", sBool), Typ: types.Typ[types.Bool]}
	case "mutations": // ghost counter of successful mutating store calls
		return SVal{T: fe.getComp(env.state(), "mutations", sInt), Typ: types.Typ[types.Int]}
	case "fault": // ghost flag: a store operation failed for a reason the request did not cause
		return SVal{T: fe.getComp(env.state(), "fault", sBool), Typ: types.Typ[types.Bool]}
	case "atoiOK": // strconv.Atoi(s) succeeds
		a := fe.tr(x.Args[0], env)
		fe.declFun(q("strconv.Atoi.1"), []string{sStr}, sIface)
		return SVal{T: tEq(Term{app(q("strconv.Atoi.1"), a.T), sIface}, nilIface), Typ: types.Typ[types.Bool]}
	case "atoi":
		a := fe.tr(x.Args[0], env)
		fe.declFun(q("strconv.Atoi.0"), []string{sStr}, sInt)
		return SVal{T: Term{app(q("strconv.Atoi.0"), a.T), sInt}, Typ: types.Typ[types.Int]}
	case "heldAt": // heldAt(addr): raw access to the held-set
		a := fe.tr(x.Args[0], env)
		h := fe.getComp(env.state(), "held", arrSort(sInt, sBool))
		return SVal{T: tSel(h, a.T), Typ: types.Typ[types.Bool]}
	case "mutexAddr": // the address of a mutex field
		v := fe.tr(x.Args[0], env)
		if v.At != nil {
			return SVal{T: *v.At, Typ: types.Typ[types.Int]}
		}
		return SVal{T: v.T, Typ: types.Typ[types.Int]}
	case "clock":
		return SVal{T: fe.getComp(env.state(), "clock", sInt), Typ: types.Typ[types.Int]}
	case "now": // inside old(...): evaluate in the current state
		e2 := *env
		e2.inOld = false
		return fe.mat(fe.tr(x.Args[0], &e2), &e2)
	case "addr": // address of a field whose address is taken somewhere in the program: addr(x.f)
		sel, ok := x.Args[0].(ESel)
		if !ok {
			fe.specFail("addr() needs a field selector")
		}
		xv := fe.tr(sel.X, env)
		var structT types.Type
		var base Term
		if xv.At != nil {
			structT, base = xv.Typ, *xv.At
		} else if el, isPtr := derefType(xv.Typ); isPtr && structOf(el) != nil {
			structT, base = el, xv.T
		} else {
			fe.specFail("addr(%s): not a field of an addressable struct", exprString(x.Args[0]))
		}
		s := structOf(structT)
		for i := 0; i < s.NumFields(); i++ {
			if s.Field(i).Name() == sel.F {
				if structOf(s.Field(i).Type()) == nil && !fe.c.escFields[escKey(structT, i)] {
					fe.specFail("addr(%s): the address of this field is never taken", exprString(x.Args[0]))
				}
				return SVal{T: fe.subAddr(structT, i, base), Typ: types.NewPointer(s.Field(i).Type())}
			}
		}
		fe.specFail("addr: no field %s", sel.F)
		return SVal{}
	case "fresh":
		v := fe.mat(fe.tr(x.Args[0], env), env)
		oa := fe.getComp(env.old, "alloc", sInt)
		t := v.T
		if t.Sort == sSlice {
			t = slArr(t)
		}
		return SVal{T: tCmp(">", t, oa), Typ: types.Typ[types.Bool]}
	case "allocated": // reference existed in the old state
		v := fe.mat(fe.tr(x.Args[0], env), env)
		oa := fe.getComp(env.old, "alloc", sInt)
		t := v.T
		if t.Sort == sSlice {
			t = slArr(t)
		}
		return SVal{T: tCmp("<=", t, oa), Typ: types.Typ[types.Bool]}
	case "keyOf": // keyOf(m, a, b, ...): the struct value with fields a, b, ... of the key type of map m (keys of function-local struct types)
		m := fe.tr(x.Args[0], env)
		var kt types.Type
		if m.Typ != nil {
			if mt, ok := m.Typ.Underlying().(*types.Map); ok {
				kt = mt.Key()
			}
		}
		stt := structOf(kt)
		if kt == nil || stt == nil || stt.NumFields() != len(x.Args)-1 {
			fe.specFail("keyOf: first argument must be a map with a struct key of %d fields", len(x.Args)-1)
		}
		srt := fe.sorts.sortOf(kt)
		var as []Term
		for _, a := range x.Args[1:] {
			as = append(as, fe.mat(fe.tr(a, env), env).T)
		}
		return SVal{T: Term{app(q("mk."+strings.Trim(srt, "|")), as...), srt}, Typ: kt}
	case "arr": // backing array of a slice
		v := fe.mat(fe.tr(x.Args[0], env), env)
		return SVal{T: slArr(v.T), Typ: types.Typ[types.Int]}
	case "off":
		v := fe.mat(fe.tr(x.Args[0], env), env)
		return SVal{T: slOff(v.T), Typ: types.Typ[types.Int]}
	case "errIs":
		a := fe.mat(fe.tr(x.Args[0], env), env)
		b := fe.mat(fe.tr(x.Args[1], env), env)
		return SVal{T: Term{app("errIs", a.T, b.T), sBool}, Typ: types.Typ[types.Bool]}
	case "strlt":
		a := fe.tr(x.Args[0], env)
		b := fe.tr(x.Args[1], env)
		return SVal{T: tCmp("<", Term{app("strord", a.T), sReal}, Term{app("strord", b.T), sReal}), Typ: types.Typ[types.Bool]}
	case "uniqueWhen":
		// uniqueWhen(S, key, cond): forall j != k :: key(S[j]) == key(S[k]) ==> !cond(S[j])
		// (an entry satisfying cond is the only one with its key).  As a goal: the pairwise form.  As an
		// assumption outside any binder: the equivalent single-variable form with two fresh functions
		// (P: keys owned by a cond-entry, p: the owner's index), which instantiates linearly.
		if len(x.Args) != 3 {
			fe.specFail("uniqueWhen needs 3 arguments")
		}
		kn, cn := exprName(x.Args[1]), exprName(x.Args[2])
		S := x.Args[0]
		elem := func(v string) Expr { return EIdx{S, EId{v}} }
		inr := func(v string) Expr {
			return EBin{"&&", EBin{"<=", EInt{"0"}, EId{v}}, EBin{"<", EId{v}, ECall{"len", []Expr{S}}}}
		}
		renameCounter++
		if env.pol == 1 && len(env.bound) == 0 {
			fe.nfresh++
			P := fmt.Sprintf("$uwP.%d", fe.nfresh)
			p := fmt.Sprintf("$uwp.%d", fe.nfresh)
			qv := fmt.Sprintf("q_%d", renameCounter)
			key := ECall{kn, []Expr{elem(qv)}}
			body := EBin{"==>", inr(qv), EBin{"&&",
				EBin{"==>", ECall{cn, []Expr{elem(qv)}}, ECall{P, []Expr{key}}},
				EBin{"==>", ECall{P, []Expr{key}}, EBin{"==", ECall{p, []Expr{key}}, EId{qv}}}}}
			return fe.tr(EQuant{true, []Binder{{qv, "int"}}, body, nil}, env)
		}
		jv, kv := fmt.Sprintf("j_%d", renameCounter), fmt.Sprintf("k_%d", renameCounter)
		body := EBin{"==>", EBin{"&&", EBin{"&&", EBin{"&&", inr(jv), inr(kv)}, EBin{"!=", EId{jv}, EId{kv}}},
			EBin{"==", ECall{kn, []Expr{elem(jv)}}, ECall{kn, []Expr{elem(kv)}}}}, EUn{"!", ECall{cn, []Expr{elem(jv)}}}}
		return fe.tr(EQuant{true, []Binder{{jv, "int"}, {kv, "int"}}, body, nil}, env)
	case "digestOK":
		a := fe.tr(x.Args[0], env)
		fe.declFun("digestOK", []string{sStr}, sBool)
		return SVal{T: Term{app("digestOK", a.T), sBool}, Typ: types.Typ[types.Bool]}
	case "frame_elems": // rows of the element heap that existed in the old state are unchanged
		t := env.resolveType(exprName(x.Args[0]))
		es := fe.sorts.sortOf(t)
		cn, cs := compElems(es), arrSort(sInt, arrSort(sInt, es))
		cur, old := fe.getComp(env.cur, cn, cs), fe.getComp(env.old, cn, cs)
		oa := fe.getComp(env.old, "alloc", sInt)
		return SVal{T: Term{fmt.Sprintf("(forall ((r Int)) (! (=> (<= r %s) (= (select %s r) (select %s r))) :pattern ((select %s r))))", oa.S, cur.S, old.S, cur.S), sBool}, Typ: types.Typ[types.Bool]}
	case "frame_elems_but": // like frame_elems, except for the backing array of the given slice (as it was in the old state)
		t := env.resolveType(exprName(x.Args[0]))
		es := fe.sorts.sortOf(t)
		cn, cs := compElems(es), arrSort(sInt, arrSort(sInt, es))
		cur, old := fe.getComp(env.cur, cn, cs), fe.getComp(env.old, cn, cs)
		oa := fe.getComp(env.old, "alloc", sInt)
		e2 := *env
		e2.inOld = true
		sl := fe.mat(fe.tr(x.Args[1], &e2), &e2)
		return SVal{T: Term{fmt.Sprintf("(forall ((r Int)) (! (=> (and (<= r %s) (not (= r %s))) (= (select %s r) (select %s r))) :pattern ((select %s r))))", oa.S, slArr(sl.T).S, cur.S, old.S, cur.S), sBool}, Typ: types.Typ[types.Bool]}
	case "mapsame": // mapsame(K, V, m, k): entry k of map object m is the same as in the old state
		kt := env.resolveType(exprName(x.Args[0]))
		vt := env.resolveType(exprName(x.Args[1]))
		mt := types.NewMap(kt, vt)
		m := fe.tr(x.Args[2], env).T
		k := fe.tr(x.Args[3], env).T
		d1, v1, _, _, _ := fe.mapComps(env.cur, mt, false)
		d0, v0, _, _, _ := fe.mapComps(env.old, mt, false)
		return SVal{T: tAnd(tEq(tSel(tSel(d1, m), k), tSel(tSel(d0, m), k)), tEq(tSel(tSel(v1, m), k), tSel(tSel(v0, m), k))), Typ: types.Typ[types.Bool]}
	case "frame_maps_but": // frame_maps_but(K, V, m): every map object of that type that existed before, except m (old value), is unchanged
		kt := env.resolveType(exprName(x.Args[0]))
		vt := env.resolveType(exprName(x.Args[1]))
		mt := types.NewMap(kt, vt)
		d1, v1, c1, _, _ := fe.mapComps(env.cur, mt, false)
		d0, v0, c0, _, _ := fe.mapComps(env.old, mt, false)
		oa := fe.getComp(env.old, "alloc", sInt)
		e2 := *env
		e2.inOld = true
		ex := fe.mat(fe.tr(x.Args[2], &e2), &e2)
		f := fmt.Sprintf("(forall ((r Int)) (! (=> (and (<= r %s) (not (= r %s))) (and (= (select %s r) (select %s r)) (= (select %s r) (select %s r)) (= (select %s r) (select %s r)))) :pattern ((select %s r)) :pattern ((select %s r)) :pattern ((select %s r))))",
			oa.S, ex.T.S, d1.S, d0.S, v1.S, v0.S, c1.S, c0.S, d1.S, v1.S, c1.S)
		return SVal{T: Term{f, sBool}, Typ: types.Typ[types.Bool]}
	case "frame_maps":
		kt := env.resolveType(exprName(x.Args[0]))
		vt := env.resolveType(exprName(x.Args[1]))
		mt := types.NewMap(kt, vt)
		d1, v1, c1, _, _ := fe.mapComps(env.cur, mt, false)
		d0, v0, c0, _, _ := fe.mapComps(env.old, mt, false)
		oa := fe.getComp(env.old, "alloc", sInt)
		f := fmt.Sprintf("(forall ((r Int)) (! (=> (<= r %s) (and (= (select %s r) (select %s r)) (= (select %s r) (select %s r)) (= (select %s r) (select %s r)))) :pattern ((select %s r)) :pattern ((select %s r)) :pattern ((select %s r))))",
			oa.S, d1.S, d0.S, v1.S, v0.S, c1.S, c0.S, d1.S, v1.S, c1.S)
		return SVal{T: Term{f, sBool}, Typ: types.Typ[types.Bool]}
	case "frame_struct": // objects of the struct type that existed in the old state are unchanged (all non-struct fields)
		t := env.resolveType(exprName(x.Args[0]))
		st := structOf(t)
		oa := fe.getComp(env.old, "alloc", sInt)
		var cs []Term
		for i := 0; i < st.NumFields(); i++ {
			if structOf(st.Field(i).Type()) != nil || fe.c.escFields[escKey(t, i)] {
				continue
			}
			cn := compField(t, i)
			srt := arrSort(sInt, fe.sorts.sortOf(st.Field(i).Type()))
			cur, old := fe.getComp(env.cur, cn, srt), fe.getComp(env.old, cn, srt)
			cs = append(cs, Term{fmt.Sprintf("(forall ((r Int)) (! (=> (<= r %s) (= (select %s r) (select %s r))) :pattern ((select %s r))))", oa.S, cur.S, old.S, cur.S), sBool})
		}
		return SVal{T: tAnd(cs...), Typ: types.Typ[types.Bool]}
	case "typeid":
		a := fe.tr(x.Args[0], env)
		return SVal{T: ifTyp(a.T), Typ: types.Typ[types.Int]}
	}
	if strings.HasPrefix(x.Fn, "$uw") {
		a := fe.mat(fe.tr(x.Args[0], env), env)
		ret := sBool
		if strings.HasPrefix(x.Fn, "$uwp") {
			ret = sInt
		}
		n := q(x.Fn[1:])
		fe.declFun(n, []string{a.T.Sort}, ret)
		var rt types.Type = types.Typ[types.Bool]
		if ret == sInt {
			rt = types.Typ[types.Int]
		}
		return SVal{T: Term{app(n, a.T), ret}, Typ: rt}
	}
	if strings.HasPrefix(x.Fn, "re_") {
		n := q("re." + x.Fn[3:])
		fe.declFun(n, []string{sStr}, sBool)
		a := fe.tr(x.Args[0], env)
		return SVal{T: Term{app(n, a.T), sBool}, Typ: types.Typ[types.Bool]}
	}
	if p := fe.findPred(env, x.Fn); p != nil {
		if len(p.Params) != len(x.Args) {
			fe.specFail("pred %s: wrong number of arguments", x.Fn)
		}
		if env.depth > 20 {
			fe.specFail("pred expansion too deep")
		}
		// bind arguments by value (evaluated in the caller's environment)
		e2 := *env
		e2.bound = map[string]SVal{}
		for k, v := range env.bound {
			e2.bound[k] = v
		}
		e2.depth++
		m := map[string]Expr{}
		for i, pn := range p.Params {
			m[pn] = x.Args[i]
		}
		// a predicate written for a generic type, applied to an instantiation: bind the type parameters
		for _, a := range x.Args {
			func() {
				defer func() {
					if r := recover(); r != nil {
						if _, ok := r.(specErr); !ok {
							panic(r)
						}
					}
				}()
				v := fe.tr(a, env)
				if n, ok := derefNamed(v.Typ); ok && n.TypeArgs() != nil && n.TypeArgs().Len() > 0 {
					tps := n.Origin().TypeParams()
					tp := map[string]types.Type{}
					for k, t := range e2.tparams {
						tp[k] = t
					}
					for i := 0; i < tps.Len() && i < n.TypeArgs().Len(); i++ {
						if _, isTP := n.TypeArgs().At(i).(*types.TypeParam); !isTP {
							tp[tps.At(i).Obj().Name()] = n.TypeArgs().At(i)
						}
					}
					e2.tparams = tp
				}
			}()
		}
		return fe.tr(substExpr(p.Body, m), &e2)
	}
	if g := fe.findGhost(env, x.Fn); g != nil {
		var args []Term
		var sorts []string
		for i, a := range x.Args {
			v := fe.mat(fe.tr(a, env), env)
			s := fe.ghostSort(env, g.ParamTypes[i])
			if v.IsNil {
				v.T = zeroOfSort(s)
			}
			args = append(args, v.T)
			sorts = append(sorts, s)
		}
		rs := fe.ghostSort(env, g.Ret)
		n := q("gf." + g.Name)
		fe.declFun(n, sorts, rs)
		var rt types.Type
		if rs == sBool {
			rt = types.Typ[types.Bool]
		} else if g.Ret != "Bytes" && g.Ret != "Ref" && g.Ret != "error" && !strings.HasPrefix(g.Ret, "set[") {
			func() {
				defer func() { _ = recover() }()
				rt = env.resolveType(g.Ret)
			}()
		}
		if len(args) == 0 {
			return SVal{T: Term{n, rs}, Typ: rt}
		}
		return SVal{T: Term{app(n, args...), rs}, Typ: rt}
	}
	fe.specFail("unknown function %s", x.Fn)
	return SVal{}
}

func (fe *FnEnc) trBin(x EBin, env *Env) SVal {
	boolT := types.Typ[types.Bool]
	switch x.Op {
	case "&&":
		return SVal{T: tAnd(fe.trB(x.L, env), fe.trB(x.R, env)), Typ: boolT}
	case "||":
		return SVal{T: tOr(fe.trB(x.L, env), fe.trB(x.R, env)), Typ: boolT}
	case "==>":
		eL := *env
		eL.pol = -env.pol
		return SVal{T: tImp(fe.trB(x.L, &eL), fe.trB(x.R, env)), Typ: boolT}
	case "<==>":
		e0 := *env
		e0.pol = 0
		return SVal{T: tEq(fe.trB(x.L, &e0), fe.trB(x.R, &e0)), Typ: boolT}
	}
	l := fe.mat(fe.tr(x.L, env), env)
	r := fe.mat(fe.tr(x.R, env), env)
	switch x.Op {
	case "==", "!=":
		var eq Term
		switch {
		case l.IsNil && r.IsNil:
			eq = tTrue
		case r.IsNil:
			eq = nilEq(l.T)
		case l.IsNil:
			eq = nilEq(r.T)
		default:
			if l.T.Sort != r.T.Sort {
				fe.specFail("comparing %s with %s", l.T.Sort, r.T.Sort)
			}
			eq = tEq(l.T, r.T)
		}
		if x.Op == "!=" {
			eq = tNot(eq)
		}
		return SVal{T: eq, Typ: boolT}
	case "<", "<=", ">", ">=":
		if l.T.Sort == sStr {
			return SVal{T: tCmp(x.Op, Term{app("strord", l.T), sReal}, Term{app("strord", r.T), sReal}), Typ: boolT}
		}
		return SVal{T: tCmp(x.Op, l.T, r.T), Typ: boolT}
	case "+":
		if l.T.Sort == sStr {
			return SVal{T: Term{app("strcat", l.T, r.T), sStr}, Typ: l.Typ}
		}
		return SVal{T: tArith("+", l.T, r.T), Typ: l.Typ}
	case "-", "*":
		return SVal{T: tArith(x.Op, l.T, r.T), Typ: l.Typ}
	case "/":
		return SVal{T: tArith("div", l.T, r.T), Typ: l.Typ}
	case "%":
		return SVal{T: tArith("mod", l.T, r.T), Typ: l.Typ}
	}
	fe.specFail("operator %s", x.Op)
	return SVal{}
}

func nilEq(t Term) Term {
	switch t.Sort {
	case sSlice:
		return tEq(slArr(t), tInt(0))
	case sIface:
		return tEq(t, nilIface)
	case sInt:
		return tEq(t, tInt(0))
	}
	panic(specErr{"nil comparison with sort " + t.Sort})
}

func (fe *FnEnc) trB(ex Expr, env *Env) Term {
	v := fe.tr(ex, env)
	if v.T.Sort != sBool {
		fe.specFail("expected boolean in %s", exprString(ex))
	}
	return v.T
}

// emitAxioms asserts the axioms of the function's package contract file (trusted, counted).
func (fe *FnEnc) emitAxioms(st *State) {
	if fe.dry {
		return
	}
	for _, k := range sortedKeys(fe.c.contracts) {
		cf := fe.c.contracts[k]
		for i := range cf.Axioms {
			ax := &cf.Axioms[i]
			env := fe.baseEnv(st)
			env.cf = cf
			env.old = fe.entrySnap()
			if p := fe.c.pkgs[k]; p != nil {
				env.pkg = p.Pkg
			}
			t := fe.trBool(ax.E, env)
			fe.emit("(assert " + t.S + ")")
			fe.assumed["axiom "+pkgDirName(k)+":"+ax.Label] = true
		}
	}
}

func pkgDirName(path string) string {
	d := pkgDir(path)
	if d == "" {
		return "olareg"
	}
	return d
}

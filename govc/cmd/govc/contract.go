package main

import (
	"fmt"
	"os"
	"regexp"
	"strconv"
	"strings"
)

type Clause struct {
	Label      string
	Props      []string // nil: inherit from function
	Uses       []string // nil: every assumption; else only the named invariants / callee postconditions (plus preconditions)
	InitUses   []string // extra assumptions for establishing a loop invariant
	E          Expr
	Src        string
	Maintained bool // maintains [l] e: postcondition that is also an invariant of every loop of the function
	Stable     bool // requires stable [l] e: a fact no other goroutine can invalidate; also checked where the function is spawned with `go`
	Invariant  bool // requires invariant [l] e: an object invariant, assumed on entry and NOT checked at call sites (listed as assumption)
}

type LoopSpec struct {
	Invs []Clause
	Decr Expr
	// Exits: `loop N: exits [l]{P} only "text"`: a return statement inside the loop is only allowed when its source
	// text contains the text (e.g. the one return that reacts to a stop signal); any other return cuts the loop short
	Exits []Clause
}

type AssertSpec struct {
	Clause
	After  bool
	Callee string
	K      int
	Text   string // anchor by source text of the call expression (every matching call site)
	Forbid bool   // forbid [l] "text": no call whose source text contains the text may be reachable
	Assume bool   // assume [l] after "text": e — an assumption about a dependency stated at that call (never an obligation; listed in the evidence)
}

type FuncContract struct {
	Pkg       string // package path
	Key       string // Recv.Name or Name
	Header    string
	RecvName  string
	Params    []string
	Results   []string
	Props     []string
	Requires  []Clause
	Ensures   []Clause
	Loops     map[int]*LoopSpec
	Asserts   []AssertSpec
	FsPaths   []Clause // fspath [l] e(path): must hold for every path handed to package os in this function
	Modifies  []string // explicit (interface / trusted contracts)
	Trusted   bool     // body not verified, contract assumed
	NilRecvOK bool
	IsIface   bool // contract of an interface method
	IsCB      bool // callback contract
	Pure      bool
	Line      int
	Patterns  []string // group contract (`funcs pat...`): clauses apply to every function whose key matches
}

type PredDef struct {
	Name   string
	Params []string
	Body   Expr
}

type GhostFunc struct {
	Name       string
	ParamTypes []string
	Ret        string
}

type ModelField struct {
	Name, Type string
}

// RegexSpec: `regexp Name == "pattern" {P1,P2}`: the package-level variable Name is compiled from a regular expression
// that accepts exactly the language of the pattern written in the contract (taken from the property statement)
type RegexSpec struct {
	Name, Pattern string
	Props         []string
	Line          int
}

type ContractFile struct {
	Regexes []RegexSpec
	Pkg     string
	Funcs   map[string]*FuncContract
	Preds   map[string]*PredDef
	Ghosts  map[string]*GhostFunc
	Axioms  []Clause
	Models  map[string][]ModelField // type name -> ghost fields
	Lemmas  []Clause
	Groups  []*FuncContract // `funcs` blocks
}

var reLabel = regexp.MustCompile(`^\[([A-Za-z0-9_.\-]+)\](\{[A-Z0-9, ]+\})?\s*`)

var clauseKW = map[string]bool{"func": true, "funcs": true, "iface": true, "callback": true, "pred": true, "ghost": true, "axiom": true, "lemma": true, "model": true,
	"props": true, "requires": true, "ensures": true, "maintains": true, "fspath": true, "forbid": true, "loop": true, "assert": true, "assume": true, "modifies": true, "trusted": true, "nilrecv": true, "pure": true, "package": true, "regexp": true}

func parseContractFile(path, pkg string) (*ContractFile, error) {
	b, err := os.ReadFile(path)
	if err != nil {
		return nil, err
	}
	cf := &ContractFile{Pkg: pkg, Funcs: map[string]*FuncContract{}, Preds: map[string]*PredDef{}, Ghosts: map[string]*GhostFunc{}, Models: map[string][]ModelField{}}
	// join continuation lines into logical clauses
	type logical struct {
		text string
		line int
	}
	var ls []logical
	for n, raw := range strings.Split(string(b), "\n") {
		t := strings.TrimSpace(raw)
		var body string
		switch {
		case strings.HasPrefix(t, "//@"):
			body = t[3:]
		case strings.HasPrefix(t, "// @"):
			body = t[4:]
		default:
			continue
		}
		body = strings.TrimSpace(body)
		if body == "" || strings.HasPrefix(body, "--") {
			continue
		}
		first := body
		if i := strings.IndexAny(body, " \t:("); i >= 0 {
			first = body[:i]
		}
		if clauseKW[first] || len(ls) == 0 {
			ls = append(ls, logical{body, n + 1})
		} else {
			ls[len(ls)-1].text += " " + body
		}
	}
	var cur *FuncContract
	for _, l := range ls {
		kw, rest, _ := strings.Cut(l.text, " ")
		if i := strings.IndexAny(kw, ":("); i >= 0 {
			rest = l.text[i:]
			kw = kw[:i]
		}
		rest = strings.TrimSpace(rest)
		fail := func(err error) error {
			return fmt.Errorf("%s:%d: %v", path, l.line, err)
		}
		switch kw {
		case "package":
		case "func", "iface", "callback":
			fc, err := parseHeader(rest)
			if err != nil {
				return nil, fail(err)
			}
			fc.Pkg = pkg
			fc.Line = l.line
			fc.IsIface = kw == "iface"
			fc.IsCB = kw == "callback"
			fc.Loops = map[int]*LoopSpec{}
			if _, dup := cf.Funcs[fc.Key]; dup {
				return nil, fail(fmt.Errorf("duplicate contract for %s", fc.Key))
			}
			cf.Funcs[fc.Key] = fc
			cur = fc
		case "funcs":
			// funcs pat1 pat2 !excluded ...: the following requires/ensures apply to every function of the
			// package whose key matches one of the glob patterns (and none of the excluded ones);
			// the receiver is called recv, results are result0, result1, ...
			g := &FuncContract{Pkg: pkg, Key: "funcs@" + strconv.Itoa(l.line), RecvName: "recv", Loops: map[int]*LoopSpec{}, Line: l.line,
				Patterns: strings.Fields(rest)}
			if len(g.Patterns) == 0 {
				return nil, fail(fmt.Errorf("funcs without patterns"))
			}
			cf.Groups = append(cf.Groups, g)
			cur = g
		case "props":
			if cur == nil {
				return nil, fail(fmt.Errorf("props outside func"))
			}
			cur.Props = strings.Fields(strings.ReplaceAll(rest, ",", " "))
		case "trusted":
			cur.Trusted = true
		case "nilrecv":
			cur.NilRecvOK = true
		case "pure":
			cur.Pure = true
		case "modifies":
			for _, m := range strings.Split(rest, ",") {
				if m = strings.TrimSpace(m); m != "" {
					cur.Modifies = append(cur.Modifies, m)
				}
			}
		case "forbid":
			// forbid [label]{P} "text"
			m := reLabel.FindStringSubmatch(rest)
			if m == nil || cur == nil {
				return nil, fail(fmt.Errorf("forbid needs a label"))
			}
			mt := regexp.MustCompile(`^"([^"]+)"$`).FindStringSubmatch(strings.TrimSpace(rest[len(m[0]):]))
			if mt == nil {
				return nil, fail(fmt.Errorf(`forbid clause must be: forbid [label] "text"`))
			}
			as := AssertSpec{Clause: Clause{Label: m[1], E: EBool{false}, Src: "false"}, Text: mt[1], Forbid: true}
			if m[2] != "" {
				as.Props = strings.Fields(strings.NewReplacer("{", "", "}", "", ",", " ").Replace(m[2]))
			}
			cur.Asserts = append(cur.Asserts, as)
		case "fspath":
			if cur == nil {
				return nil, fail(fmt.Errorf("fspath outside func"))
			}
			cl, err := parseClause(rest)
			if err != nil {
				return nil, fail(err)
			}
			cur.FsPaths = append(cur.FsPaths, cl)
		case "requires", "ensures", "maintains":
			if cur == nil {
				return nil, fail(fmt.Errorf("%s outside func", kw))
			}
			cl, err := parseClause(rest)
			if err != nil {
				return nil, fail(err)
			}
			cl.Maintained = kw == "maintains"
			if kw == "requires" {
				cur.Requires = append(cur.Requires, cl)
			} else {
				cur.Ensures = append(cur.Ensures, cl)
			}
		case "loop":
			// loop N: invariant [l] e | loop N: decreases e
			numS, r2, ok := strings.Cut(rest, ":")
			if !ok {
				return nil, fail(fmt.Errorf("bad loop clause"))
			}
			numS = strings.TrimSpace(numS)
			if i := strings.Index(numS, "("); i >= 0 {
				numS = strings.TrimSpace(numS[:i])
			}
			// loop 2,4: invariant ... states the same invariant for several loops (an outer loop and the loops nested in it)
			var loopNums []int
			for _, ns := range strings.Split(numS, ",") {
				n, err := strconv.Atoi(strings.TrimSpace(ns))
				if err != nil {
					return nil, fail(err)
				}
				loopNums = append(loopNums, n)
			}
			r2 = strings.TrimSpace(r2)
			k2, r3, _ := strings.Cut(r2, " ")
			for _, n := range loopNums {
				ls := cur.Loops[n]
				if ls == nil {
					ls = &LoopSpec{}
					cur.Loops[n] = ls
				}
				switch k2 {
				case "invariant":
					cl, err := parseClause(r3)
					if err != nil {
						return nil, fail(err)
					}
					ls.Invs = append(ls.Invs, cl)
				case "exits":
					m := reLabel.FindStringSubmatch(strings.TrimSpace(r3))
					if m == nil {
						return nil, fail(fmt.Errorf("exits needs a label"))
					}
					rest2 := strings.TrimSpace(strings.TrimSpace(r3)[len(m[0]):])
					mm := regexp.MustCompile(`^only\s+"([^"]*)"$`).FindStringSubmatch(rest2)
					if mm == nil {
						return nil, fail(fmt.Errorf(`exits clause must be: exits [label] only "text"`))
					}
					cl := Clause{Label: m[1], Src: mm[1]}
					if m[2] != "" {
						cl.Props = strings.Fields(strings.NewReplacer("{", "", "}", "", ",", " ").Replace(m[2]))
					}
					ls.Exits = append(ls.Exits, cl)
				case "decreases":
					e, err := parseExpr(r3)
					if err != nil {
						return nil, fail(err)
					}
					ls.Decr = e
				default:
					return nil, fail(fmt.Errorf("bad loop clause kind %q", k2))
				}
			}
		case "assert", "assume":
			// assert [label] after|before call NAME#k: expr   |  assert [label] expr (not supported)
			// assume [label] after|before "text": expr  (assumed contract of a dependency, anchored at its call)
			m := reLabel.FindStringSubmatch(rest)
			if m == nil {
				return nil, fail(fmt.Errorf("assert needs a label"))
			}
			r2 := rest[len(m[0]):]
			var uses []string
			if strings.HasPrefix(r2, "uses(") {
				j := strings.Index(r2, ")")
				uses = []string{}
				for _, u := range strings.Split(r2[5:j], ",") {
					if u = strings.TrimSpace(u); u != "" {
						uses = append(uses, u)
					}
				}
				r2 = strings.TrimSpace(r2[j+1:])
			}
			reT := regexp.MustCompile(`^(after|before)\s+"([^"]+)"(#\d+)?\s*:\s*(.*)$`)
			if mt := reT.FindStringSubmatch(r2); mt != nil {
				textOrd := 0
				if mt[3] != "" {
					textOrd, _ = strconv.Atoi(mt[3][1:])
				}
				mt = []string{mt[0], mt[1], mt[2], mt[4]}
				e, err := parseExpr(mt[3])
				if err != nil {
					return nil, fail(err)
				}
				as := AssertSpec{Clause: Clause{Label: m[1], E: e, Src: mt[3], Uses: uses}, After: mt[1] == "after", Text: mt[2], Assume: kw == "assume", K: textOrd}
				if m[2] != "" {
					as.Props = strings.Fields(strings.NewReplacer("{", "", "}", "", ",", " ").Replace(m[2]))
				}
				cur.Asserts = append(cur.Asserts, as)
				continue
			}
			re := regexp.MustCompile(`^(after|before)\s+call\s+(\S+?)#(\d+)\s*:\s*(.*)$`)
			mm := re.FindStringSubmatch(r2)
			if mm == nil || kw == "assume" {
				return nil, fail(fmt.Errorf("bad assert clause"))
			}
			e, err := parseExpr(mm[4])
			if err != nil {
				return nil, fail(err)
			}
			k, _ := strconv.Atoi(mm[3])
			as := AssertSpec{Clause: Clause{Label: m[1], E: e, Src: mm[4], Uses: uses}, After: mm[1] == "after", Callee: mm[2], K: k}
			if m[2] != "" {
				as.Props = strings.Fields(strings.NewReplacer("{", "", "}", "", ",", " ").Replace(m[2]))
			}
			cur.Asserts = append(cur.Asserts, as)
		case "pred":
			// pred name(a, b) := expr
			hd, body, ok := strings.Cut(rest, ":=")
			if !ok {
				return nil, fail(fmt.Errorf("pred without :="))
			}
			name, ps, err := parseNameParams(hd)
			if err != nil {
				return nil, fail(err)
			}
			e, err := parseExpr(body)
			if err != nil {
				return nil, fail(err)
			}
			cf.Preds[name] = &PredDef{name, ps, e}
			cur = nil
		case "ghost":
			// ghost func name(T1, T2) R
			r2 := strings.TrimSpace(strings.TrimPrefix(rest, "func"))
			i := strings.Index(r2, "(")
			j := strings.LastIndex(r2, ")")
			if i < 0 || j < i {
				return nil, fail(fmt.Errorf("bad ghost func"))
			}
			g := &GhostFunc{Name: strings.TrimSpace(r2[:i]), Ret: strings.TrimSpace(r2[j+1:])}
			for _, p := range splitTop(r2[i+1 : j]) {
				p = strings.TrimSpace(p)
				if p == "" {
					continue
				}
				f := strings.Fields(p)
				g.ParamTypes = append(g.ParamTypes, f[len(f)-1])
			}
			cf.Ghosts[g.Name] = g
			cur = nil
		case "regexp":
			mm := regexp.MustCompile(`^(\w+)\s*==\s*"((?:[^"\\]|\\.)*)"\s*(\{[A-Z0-9, ]+\})?$`).FindStringSubmatch(rest)
			if mm == nil {
				return nil, fail(fmt.Errorf(`regexp clause must be: regexp Name == "pattern" {props}`))
			}
			pat, err := strconv.Unquote(`"` + mm[2] + `"`)
			if err != nil {
				return nil, fail(err)
			}
			rs := RegexSpec{Name: mm[1], Pattern: pat, Line: l.line}
			if mm[3] != "" {
				rs.Props = strings.Fields(strings.NewReplacer("{", "", "}", "", ",", " ").Replace(mm[3]))
			}
			cf.Regexes = append(cf.Regexes, rs)
			cur = nil
		case "axiom", "lemma":
			name, body, ok := strings.Cut(rest, ":")
			if !ok {
				return nil, fail(fmt.Errorf("axiom without name"))
			}
			e, err := parseExpr(body)
			if err != nil {
				return nil, fail(err)
			}
			cl := Clause{Label: strings.TrimSpace(name), E: e, Src: body}
			if kw == "axiom" {
				cf.Axioms = append(cf.Axioms, cl)
			} else {
				cf.Lemmas = append(cf.Lemmas, cl)
			}
			cur = nil
		case "model":
			// model Type { a int; b string }
			i := strings.Index(rest, "{")
			j := strings.LastIndex(rest, "}")
			if i < 0 || j < i {
				return nil, fail(fmt.Errorf("bad model"))
			}
			tn := strings.TrimSpace(rest[:i])
			for _, f := range strings.Split(rest[i+1:j], ";") {
				fs := strings.Fields(f)
				if len(fs) == 2 {
					cf.Models[tn] = append(cf.Models[tn], ModelField{fs[0], fs[1]})
				}
			}
			cur = nil
		default:
			return nil, fail(fmt.Errorf("unknown clause %q", kw))
		}
	}
	return cf, nil
}

func parseClause(s string) (Clause, error) {
	cl := Clause{}
	s = strings.TrimSpace(s)
	if strings.HasPrefix(s, "invariant ") {
		cl.Invariant = true
		s = strings.TrimSpace(s[len("invariant "):])
	}
	if strings.HasPrefix(s, "stable ") {
		cl.Stable = true
		s = strings.TrimSpace(s[len("stable "):])
	}
	if m := reLabel.FindStringSubmatch(s); m != nil {
		cl.Label = m[1]
		if m[2] != "" {
			cl.Props = strings.Fields(strings.NewReplacer("{", "", "}", "", ",", " ").Replace(m[2]))
		}
		s = s[len(m[0]):]
	}
	if strings.HasPrefix(s, "uses(") {
		j := strings.Index(s, ")")
		if j < 0 {
			return cl, fmt.Errorf("unterminated uses(")
		}
		cl.Uses = []string{}
		for _, u := range strings.Split(s[5:j], ",") {
			if u = strings.TrimSpace(u); u != "" {
				cl.Uses = append(cl.Uses, u)
			}
		}
		s = strings.TrimSpace(s[j+1:])
	}
	if strings.HasPrefix(s, "init(") {
		j := strings.Index(s, ")")
		if j < 0 {
			return cl, fmt.Errorf("unterminated init(")
		}
		for _, u := range strings.Split(s[5:j], ",") {
			if u = strings.TrimSpace(u); u != "" {
				cl.InitUses = append(cl.InitUses, u)
			}
		}
		s = strings.TrimSpace(s[j+1:])
	}
	e, err := parseExpr(s)
	if err != nil {
		return cl, err
	}
	cl.E = e
	cl.Src = s
	if cl.Label == "" {
		cl.Label = shortLabel(s)
	}
	return cl, nil
}

func shortLabel(s string) string {
	s = strings.Join(strings.Fields(s), "")
	if len(s) > 40 {
		s = s[:40]
	}
	return s
}

func splitTop(s string) []string {
	var out []string
	depth := 0
	st := 0
	for i, c := range s {
		switch c {
		case '(', '[', '{':
			depth++
		case ')', ']', '}':
			depth--
		case ',':
			if depth == 0 {
				out = append(out, s[st:i])
				st = i + 1
			}
		}
	}
	out = append(out, s[st:])
	return out
}

func parseNameParams(hd string) (string, []string, error) {
	hd = strings.TrimSpace(hd)
	i := strings.Index(hd, "(")
	j := strings.LastIndex(hd, ")")
	if i < 0 || j < i {
		return "", nil, fmt.Errorf("bad header %q", hd)
	}
	var ps []string
	for _, p := range splitTop(hd[i+1 : j]) {
		p = strings.TrimSpace(p)
		if p == "" {
			continue
		}
		ps = append(ps, strings.Fields(p)[0])
	}
	return strings.TrimSpace(hd[:i]), ps, nil
}

// parseHeader parses "(i *Index) RmDesc(d Descriptor) (res Descriptor, err error)".
func parseHeader(h string) (*FuncContract, error) {
	fc := &FuncContract{Header: h}
	h = strings.TrimSpace(h)
	recvType := ""
	if strings.HasPrefix(h, "(") {
		j := matchParen(h, 0)
		if j < 0 {
			return nil, fmt.Errorf("bad receiver in %q", h)
		}
		f := strings.Fields(h[1:j])
		switch len(f) {
		case 1:
			recvType = f[0]
		case 2:
			fc.RecvName = f[0]
			recvType = f[1]
		default:
			return nil, fmt.Errorf("bad receiver in %q", h)
		}
		recvType = strings.TrimPrefix(recvType, "*")
		if k := strings.Index(recvType, "["); k >= 0 {
			recvType = recvType[:k]
		}
		h = strings.TrimSpace(h[j+1:])
	}
	i := strings.Index(h, "(")
	if i < 0 {
		return nil, fmt.Errorf("bad header %q", h)
	}
	name := strings.TrimSpace(h[:i])
	j := matchParen(h, i)
	if j < 0 {
		return nil, fmt.Errorf("bad params in %q", h)
	}
	for _, p := range splitTop(h[i+1 : j]) {
		p = strings.TrimSpace(p)
		if p == "" {
			continue
		}
		fc.Params = append(fc.Params, strings.Fields(p)[0])
	}
	rest := strings.TrimSpace(h[j+1:])
	if strings.HasPrefix(rest, "(") {
		k := matchParen(rest, 0)
		for _, p := range splitTop(rest[1:k]) {
			p = strings.TrimSpace(p)
			if p == "" {
				continue
			}
			f := strings.Fields(p)
			if len(f) >= 2 {
				fc.Results = append(fc.Results, f[0])
			} else {
				fc.Results = append(fc.Results, "")
			}
		}
	} else if rest != "" {
		fc.Results = append(fc.Results, "")
	}
	if recvType != "" {
		fc.Key = recvType + "." + name
	} else {
		fc.Key = name
	}
	return fc, nil
}

func matchParen(s string, i int) int {
	depth := 0
	for k := i; k < len(s); k++ {
		switch s[k] {
		case '(':
			depth++
		case ')':
			depth--
			if depth == 0 {
				return k
			}
		}
	}
	return -1
}

// groupMatches reports whether a function key is selected by the patterns of a `funcs` block.
func groupMatches(patterns []string, key string) bool {
	hit := false
	for _, p := range patterns {
		neg := strings.HasPrefix(p, "!")
		p = strings.TrimPrefix(p, "!")
		re := "^" + strings.ReplaceAll(regexp.QuoteMeta(p), `\*`, ".*") + "$"
		ok, _ := regexp.MatchString(re, key)
		if ok && neg {
			return false
		}
		if ok {
			hit = true
		}
	}
	return hit
}

var reRecvWord = regexp.MustCompile(`\brecv\b`)

package main

import (
	"fmt"
	"go/token"
	"go/types"
	"strings"

	"golang.org/x/tools/go/ssa"
)

func (fe *FnEnc) execCall(st *State, instr ssa.Instruction, common *ssa.CallCommon, res ssa.Value) {
	fnRV := fe.get(st, common.Value)
	var args []RV
	for _, a := range common.Args {
		args = append(args, fe.get(st, a))
	}
	fe.callWithArgs(st, instr, common, fnRV, args, res)
}

func (fe *FnEnc) setResult(st *State, res ssa.Value, sig *types.Signature, rets []RV) {
	// the results of the call at hand, for `after` cut points: ret (first result), ret0, ret1, ...
	fe.lastRets = nil
	for i := 0; i < sig.Results().Len() && i < len(rets); i++ {
		r := rets[i]
		r.Typ = sig.Results().At(i).Type()
		fe.lastRets = append(fe.lastRets, r)
	}
	if res == nil {
		return
	}
	n := sig.Results().Len()
	switch {
	case n == 0:
		fe.regs[res] = RV{Valid: true}
	case n == 1:
		if len(rets) == 1 {
			r := rets[0]
			r.Valid = true
			r.Typ = sig.Results().At(0).Type()
			fe.regs[res] = r
		}
	default:
		fe.regs[res] = RV{Tuple: rets, Valid: true}
	}
}

// freshResults gives unconstrained, well-formed results.
func (fe *FnEnc) freshResults(st *State, sig *types.Signature, hint string) []RV {
	var rets []RV
	for i := 0; i < sig.Results().Len(); i++ {
		t := sig.Results().At(i).Type()
		if fe.dry {
			rets = append(rets, RV{T: zeroOfSortSafe(fe.sorts, t), Typ: t, Valid: true})
			continue
		}
		v := fe.fresh("res."+hint, fe.sorts.sortOf(t))
		fe.assumeWF(st, t, v)
		rets = append(rets, RV{T: v, Typ: t, Valid: true})
	}
	return rets
}

func zeroOfSortSafe(ss *Sorts, t types.Type) Term { return ss.zero(t) }

func calleeName(fn *ssa.Function) string {
	s := fn.String()
	return s
}

func (fe *FnEnc) callWithArgs(st *State, instr ssa.Instruction, common *ssa.CallCommon, fnRV RV, args []RV, res ssa.Value) {
	sig := common.Signature()
	pos := instr.Pos()
	// the arguments of the call at hand, for cut points: arg0, arg1, ... (a method's receiver is arg0 unless the call goes through an interface)
	fe.lastArgs = nil
	for i, a := range args {
		if i < len(common.Args) {
			a.Typ = common.Args[i].Type()
		}
		fe.lastArgs = append(fe.lastArgs, a)
	}
	// builtins
	if b, ok := common.Value.(*ssa.Builtin); ok {
		fe.callBuiltin(st, b, common, args, res, pos)
		return
	}
	// interface method
	if common.IsInvoke() {
		fe.callInvoke(st, instr, common, fnRV, args, res)
		return
	}
	var callee *ssa.Function
	var bindings []RV
	if f := common.StaticCallee(); f != nil {
		callee = f
		if mc, ok := common.Value.(*ssa.MakeClosure); ok {
			if rv, ok2 := fe.regs[mc]; ok2 && rv.Clos != nil {
				bindings = rv.Clos.Bindings
			}
		}
	} else if fnRV.Clos != nil {
		callee = fnRV.Clos.Fn
		bindings = fnRV.Clos.Bindings
	}
	if callee == nil {
		// call through an unknown function value
		if fe.callCallback(st, instr, common, fnRV, args, res) {
			return
		}
		fe.havocs["dynamic call "+fe.srcText(pos, "pre")] = true
		fe.havocAll(st)
		fe.setResult(st, res, sig, fe.freshResults(st, sig, "dyn"))
		return
	}
	inst := callee
	if o := callee.Origin(); o != nil {
		callee = o
	}
	// bound-method / thunk wrappers
	if callee.Synthetic != "" && (strings.HasSuffix(callee.Name(), "$bound") || strings.HasSuffix(callee.Name(), "$thunk")) {
		if obj, ok := callee.Object().(*types.Func); ok {
			if target := fe.c.prog.FuncValue(obj); target != nil {
				a2 := append(append([]RV{}, bindings...), args...)
				callee = target
				inst = target
				if o := callee.Origin(); o != nil {
					callee = o
				}
				args = a2
				bindings = nil
			}
		}
	}
	name := calleeName(callee)
	// a handler closure invoked through http.HandlerFunc: use the closure's contract
	if name == "(net/http.HandlerFunc).ServeHTTP" && len(args) == 3 && args[0].Clos != nil {
		if fc := fe.c.contractFor(args[0].Clos.Fn); fc != nil {
			cf := args[0].Clos.Fn
			fe.applyContract(st, instr, fc, cf, cf, args[1:], args[0].Clos.Bindings, res, cf.Signature)
			return
		}
	}
	// contract?
	if fc := fe.c.contractFor(callee); fc != nil {
		fe.applyContract(st, instr, fc, callee, inst, args, bindings, res, sig)
		return
	}
	// cut points may be anchored at external calls: short name pkg.Func or Type.Method
	short := callee.Name()
	if r := callee.Signature.Recv(); r != nil {
		short = recvTypeName(r.Type()) + "." + callee.Name()
	} else if callee.Pkg != nil {
		short = callee.Pkg.Pkg.Name() + "." + callee.Name()
	}
	// file system: every call into package os (and friends) that is not known to be read-only counts as a
	// mutation of the file system (ghost counter fswrites, C14)
	fe.fsPathObligations(st, callee, args, pos)
	if fsMutating(callee) {
		fe.setComp(st, "fswrites", sInt, tArith("+", fe.getComp(st, "fswrites", sInt), tInt(1)))
		fe.assumed["file system: every os call outside the read-only list counts as a write: "+name] = true
	}
	// effects table
	if h, ok := effects[name]; ok {
		fe.curCallRecv = nil
		fe.curCallArgs = common.Args
		if len(common.Args) > 0 {
			fe.curCallRecv = common.Args[0]
		}
		fe.callOrd[short]++
		fe.cutPointsAt(st, short, fe.callOrd[short], pos, false)
		rets := h(fe, st, callee, args, pos)
		fe.assumed["stdlib: "+name] = true
		if rets == nil && sig.Results().Len() > 0 {
			rets = fe.freshResults(st, sig, callee.Name())
		}
		if callee.Pkg == nil || !strings.HasPrefix(callee.Pkg.Pkg.Path(), "github.com/olareg/") {
			fe.notOwnErrors(sig, rets)
		}
		fe.setResult(st, res, sig, rets)
		fe.cutPointsAt(st, short, fe.callOrd[short], pos, true)
		return
	}
	// in-scope function without contract: inferred write set, unconstrained results
	if _, ok := fe.c.fnKey[callee]; ok {
		fe.callOrd[short]++
		fe.cutPointsAt(st, short, fe.callOrd[short], pos, false)
		ws := fe.c.writeSetOfInst(inst)
		fe.applyWriteSet(st, ws, name)
		rets := fe.freshResults(st, sig, callee.Name())
		if cfn, idx := closureCtor(callee); cfn != nil && len(rets) == 1 {
			// the callee only builds a closure over its parameters: remember which, with cells holding the arguments
			ci := &ClosInfo{Fn: cfn}
			for _, pi := range idx {
				r := fe.newRef(st)
				pt := callee.Params[pi].Type()
				if structOf(pt) != nil {
					a := &Addr{kind: aStruct, base: r, T: pt}
					fe.store(st, a, fe.val(args[pi]))
				} else {
					a := &Addr{kind: aCell, base: r, T: pt}
					fe.store(st, a, fe.val(args[pi]))
				}
				ci.Bindings = append(ci.Bindings, RV{T: r, Valid: true})
			}
			rets[0].Clos = ci
		}
		fe.setResult(st, res, sig, rets)
		fe.cutPointsAt(st, short, fe.callOrd[short], pos, true)
		return
	}
	// external
	if pkgPure(callee) {
		fe.assumed["external call assumed to write only through its pointer arguments: "+name] = true
		fe.callOrd[short]++
		fe.cutPointsAt(st, short, fe.callOrd[short], pos, false)
		fe.havocComp(st, "alloc", sInt)
		fe.havocPointees(st, callee, args, common.Args)
		rets := fe.freshResults(st, sig, callee.Name())
		fe.nonNilOnSuccess(name, sig, rets)
		fe.notOwnErrors(sig, rets)
		fe.setResult(st, res, sig, rets)
		fe.cutPointsAt(st, short, fe.callOrd[short], pos, true)
		return
	}
	fe.havocs[name] = true
	fe.havocAll(st)
	fe.setResult(st, res, sig, fe.freshResults(st, sig, callee.Name()))
}

func (fe *FnEnc) applyWriteSet(st *State, ws *WriteSet, who string) {
	if ws.all {
		fe.havocs[who] = true
		fe.havocAll(st)
		return
	}
	if s, ok := ws.comps["alloc"]; ok {
		fe.havocComp(st, "alloc", s)
	}
	for _, k := range sortedKeys(ws.structT) {
		fe.sorts.sortOf(ws.structT[k])
	}
	for _, k := range sortedKeys(ws.comps) {
		if k != "alloc" {
			if t, ok := ws.types[k]; ok {
				fe.compT[k] = t
				fe.sorts.sortOf(t)
			}
			fe.havocComp(st, k, ws.comps[k])
		}
	}
}

var purePkgs = map[string]bool{
	"strings": true, "strconv": true, "fmt": true, "errors": true, "path": true, "path/filepath": true, "net/url": true,
	"encoding/base64": true, "time": true, "unicode": true, "unicode/utf8": true, "regexp": true, "log/slog": true,
	"github.com/opencontainers/go-digest": true, "math": true, "context": true, "bytes": true, "crypto/rand": true,
	"net/http": true, "sync": true, "io": true, "os": true, "io/fs": true, "encoding/json": true, "sort": true, "hash": true,
	"github.com/spf13/cobra": true, "github.com/spf13/pflag": true, "os/signal": true, "net": true, "mime": true, "runtime": true,
}

func pkgPure(fn *ssa.Function) bool {
	p := fn.Pkg
	if p == nil {
		if o := fn.Object(); o != nil && o.Pkg() != nil {
			return purePkgs[o.Pkg().Path()]
		}
		if r := fn.Signature.Recv(); r != nil {
			if n, ok := derefNamed(r.Type()); ok && n.Obj().Pkg() != nil {
				return purePkgs[n.Obj().Pkg().Path()]
			}
		}
		return false
	}
	return purePkgs[p.Pkg.Path()]
}

func derefNamed(t types.Type) (*types.Named, bool) {
	t = types.Unalias(t)
	if p, ok := t.(*types.Pointer); ok {
		t = types.Unalias(p.Elem())
	}
	n, ok := t.(*types.Named)
	return n, ok
}

// ---------------------------------------------------------------------
// write-set inference for functions without an explicit modifies clause

// instSubst gives the type-parameter substitution of an instantiated generic function (nil otherwise).
func instSubst(fn *ssa.Function) map[string]types.Type {
	o := fn.Origin()
	if o == nil {
		return nil
	}
	ta := fn.TypeArgs()
	m := map[string]types.Type{}
	var names []string
	if tps := o.TypeParams(); tps != nil {
		for i := 0; i < tps.Len(); i++ {
			names = append(names, tps.At(i).Obj().Name())
		}
	}
	if recv := o.Signature.Recv(); recv != nil && len(names) < len(ta) {
		if n, ok := derefNamed(recv.Type()); ok && n.TypeArgs() != nil {
			var rn []string
			for i := 0; i < n.TypeArgs().Len(); i++ {
				if tp, ok := n.TypeArgs().At(i).(*types.TypeParam); ok {
					rn = append(rn, tp.Obj().Name())
				}
			}
			names = append(rn, names...)
		}
	}
	for i, n := range names {
		if i < len(ta) {
			m[n] = ta[i]
		}
	}
	return m
}

func substKey(m map[string]types.Type) string {
	if len(m) == 0 {
		return ""
	}
	s := ""
	for _, k := range sortedKeys(m) {
		s += k + "=" + typeKey(m[k]) + ";"
	}
	return s
}

// writeSetOfInst: the write set of a callee as seen from a call site (type parameters substituted).
func (c *Ctx) writeSetOfInst(inst *ssa.Function) *WriteSet {
	sub := instSubst(inst)
	if len(sub) == 0 {
		return c.writeSetOf(inst)
	}
	fn := inst.Origin()
	key := fn.String() + "|" + substKey(sub)
	if ws, ok := c.instWS[key]; ok {
		return ws
	}
	saved, savedTmp := curSubst, c.instTmp
	curSubst = sub
	c.instTmp = map[*ssa.Function]*WriteSet{}
	ws := c.writeSetOf(fn)
	curSubst, c.instTmp = saved, savedTmp
	c.instWS[key] = ws
	return ws
}

func (c *Ctx) writeSetOf(fn *ssa.Function) *WriteSet {
	if o := fn.Origin(); o != nil {
		fn = o
	}
	cache := c.writeSets
	if len(curSubst) > 0 {
		cache = c.instTmp
	}
	if ws, ok := cache[fn]; ok {
		return ws
	}
	if c.wsBusy[fn] {
		ws := newWriteSet()
		ws.all = true
		return ws
	}
	if fc := c.contractFor(fn); fc != nil && (fc.Trusted || len(fc.Modifies) > 0) {
		ws := newWriteSet()
		d := c.newFnEnc(fn, true)
		for _, m := range fc.Modifies {
			if m == "*" {
				ws.all = true
				continue
			}
			for name, srt := range d.resolveModifiesAll(m) {
				ws.comps[name] = srt
				if t, ok := d.compT[name]; ok {
					ws.types[name] = t
				}
			}
		}
		cache[fn] = ws
		return ws
	}
	c.wsBusy[fn] = true
	d := c.newFnEnc(fn, true)
	func() {
		defer func() {
			if r := recover(); r != nil {
				d.fnWrites.all = true
			}
		}()
		d.run()
	}()
	delete(c.wsBusy, fn)
	ws := newWriteSet()
	ws.addAll(d.fnWrites)
	for k, t := range d.sorts.structT {
		ws.structT[k] = t
	}
	cache[fn] = ws
	return ws
}

// resolveModifies maps a modifies item to components:
//
//	Type.field (ghost model) | field(Struct.f) | elems(T) | maps(K,V) | cells(T) | alloc | ghost(name) | raw::sort
func (fe *FnEnc) resolveModifiesAll(m string) map[string]string {
	m = strings.TrimSpace(m)
	out := map[string]string{}
	env := fe.baseEnv(fe.entrySnap())
	arg := func(prefix string) (string, bool) {
		if strings.HasPrefix(m, prefix+"(") && strings.HasSuffix(m, ")") {
			return m[len(prefix)+1 : len(m)-1], true
		}
		return "", false
	}
	if a, ok := arg("elems"); ok {
		t := fe.safeResolve(env, a)
		if t != nil {
			es := fe.sorts.sortOf(t)
			fe.compT[compElems(es)] = t
			out[compElems(es)] = arrSort(sInt, arrSort(sInt, es))
		}
		return out
	}
	if a, ok := arg("cells"); ok {
		t := fe.safeResolve(env, a)
		if t != nil {
			es := fe.sorts.sortOf(t)
			fe.compT[compCell(es)] = t
			out[compCell(es)] = arrSort(sInt, es)
		}
		return out
	}
	if a, ok := arg("maps"); ok {
		ks, vs, _ := strings.Cut(a, ",")
		kt, vt := fe.safeResolve(env, strings.TrimSpace(ks)), fe.safeResolve(env, strings.TrimSpace(vs))
		if kt != nil && vt != nil {
			k, v := fe.sorts.sortOf(kt), fe.sorts.sortOf(vt)
			fe.compT[compMapVal(k, v)] = vt
			out[compMapDom(k, v)] = arrSort(sInt, arrSort(k, sBool))
			out[compMapVal(k, v)] = arrSort(sInt, arrSort(k, v))
			out[compMapCard(k, v)] = arrSort(sInt, sInt)
		}
		return out
	}
	if a, ok := arg("field"); ok {
		tn, f, _ := strings.Cut(a, ".")
		t := fe.safeResolve(env, tn)
		if t != nil && structOf(t) != nil {
			st := structOf(t)
			for i := 0; i < st.NumFields(); i++ {
				if st.Field(i).Name() == f && structOf(st.Field(i).Type()) == nil {
					cn, cs, _ := fe.fieldLoc(t, i, tInt(0))
					out[cn] = cs
				}
			}
		}
		if len(out) == 0 {
			fe.unsupported("cannot resolve modifies %q", m)
		}
		return out
	}
	if a, ok := arg("ghost"); ok {
		out[a] = fe.compSort[a]
		if out[a] == "" {
			out[a] = ghostCompSorts[a]
		}
		return out
	}
	n, s := fe.resolveModifies(m)
	out[n] = s
	return out
}

var ghostCompSorts = map[string]string{"held": arrSort(sInt, sBool), "clock": sInt, "fault": sBool, "mutations": sInt, "blobReady": sBool, "truncated": sBool, "FLAGS": arrSort(sStr, sInt), "fswrites": sInt, "feeds": sInt, "lastEncodeTarget": sInt, "WROTE": arrSort(sStr, sInt), "RENAMED": arrSort(sStr, sInt), "MT": arrSort(sStr, sInt),
	"HDR": arrSort(sInt, arrSort(sStr, sStr)), "M.ResponseWriter.status": arrSort(sInt, sInt), "M.BlobCreator.written": arrSort(sInt, sInt)}

func (fe *FnEnc) safeResolve(env *Env, name string) (t types.Type) {
	defer func() {
		if r := recover(); r != nil {
			fe.unsupported("cannot resolve type %q in modifies", name)
			t = nil
		}
	}()
	return env.resolveType(name)
}

func (fe *FnEnc) resolveModifies(m string) (string, string) {
	m = strings.TrimSpace(m)
	if tn, f, ok := strings.Cut(m, "."); ok && !strings.Contains(f, ".") {
		for _, k := range sortedKeys(fe.c.contracts) {
			cf := fe.c.contracts[k]
			for _, mf := range cf.Models[tn] {
				if mf.Name == f {
					env := fe.baseEnv(fe.entrySnap())
					env.cf = cf
					if p := fe.c.pkgs[cf.Pkg]; p != nil {
						env.pkg = p.Pkg
					}
					return fe.modelComp(env, tn, mf)
				}
			}
		}
	}
	if s, ok := fe.compSort[m]; ok {
		return m, s
	}
	if m == "alloc" {
		return m, sInt
	}
	// raw component with explicit sort: name::sort
	if n, s, ok := strings.Cut(m, "::"); ok {
		return n, s
	}
	fe.unsupported("cannot resolve modifies %q", m)
	return m, arrSort(sInt, sInt)
}

// ---------------------------------------------------------------------
// contract application at a call site

func (fe *FnEnc) callEnv(pre, post *State, fc *FuncContract, callee *ssa.Function, inst *ssa.Function, args []RV, bindings []RV, rets []RV) *Env {
	env := fe.baseEnv(post)
	env.old = pre
	if inst != nil {
		env.tparams = instSubst(inst)
	}
	if callee != nil {
		if p := fe.c.pkgOf(callee); p != nil {
			env.pkg = p.Pkg
			env.cf = fe.c.contracts[p.Pkg.Path()]
		}
	}
	bind := func(name string, rv RV, t types.Type) {
		if name == "" || name == "_" {
			return
		}
		sv := SVal{T: fe.val(rv), Typ: t}
		env.names[name] = sv
		env.oldNames[name] = sv
	}
	if callee != nil {
		pi := 0
		for i, p := range callee.Params {
			if i >= len(args) {
				break
			}
			pt := p.Type()
			if inst != nil && inst != callee {
				// parameter types of the instantiation
				saved := curSubst
				curSubst = env.tparams
				pt = substType(pt)
				curSubst = saved
			}
			bind(p.Name(), args[i], pt)
			if i == 0 && callee.Signature.Recv() != nil {
				bind(fc.RecvName, args[i], pt)
				bind("recv", args[i], pt)
			} else {
				if pi < len(fc.Params) {
					bind(fc.Params[pi], args[i], pt)
				}
				pi++
			}
		}
		for i, fv := range callee.FreeVars {
			if i < len(bindings) {
				// free variable: pointer to the captured variable; bind its name to the pointee
				b := bindings[i]
				el := fv.Type().Underlying().(*types.Pointer).Elem()
				a := fe.addrOf(RV{T: fe.val(b), A: b.A}, fv.Type())
				if a.kind == aStruct {
					bb := a.base
					sv := SVal{At: &bb, Typ: el}
					env.names[fv.Name()] = sv
					env.oldNames[fv.Name()] = sv
				} else {
					env.names[fv.Name()] = SVal{T: fe.load(post, a), Typ: el}
					env.oldNames[fv.Name()] = SVal{T: fe.load(pre, a), Typ: el}
				}
			}
		}
	}
	if rets != nil {
		fe.bindResults(env, fc, rets)
	}
	return env
}

func (fe *FnEnc) applyContract(st *State, instr ssa.Instruction, fc *FuncContract, callee *ssa.Function, inst *ssa.Function, args []RV, bindings []RV, res ssa.Value, sig *types.Signature) {
	pos := instr.Pos()
	if fe.dry {
		ws := fe.c.writeSetOfInst(inst)
		fe.applyWriteSet(st, ws, fc.Key)
		fe.setResult(st, res, sig, fe.freshResults(st, sig, callee.Name()))
		return
	}
	pre := st.clone()
	// receiver non-nil is an implicit precondition of methods with pointer receivers
	if callee.Signature.Recv() != nil && !fc.NilRecvOK && len(args) > 0 {
		if _, ok := callee.Params[0].Type().Underlying().(*types.Pointer); ok {
			fe.safety(st, "nil", pos, tNot(tEq(fe.val(args[0]), tInt(0))))
		}
	}
	envPre := fe.callEnv(pre, pre, fc, callee, inst, args, bindings, nil)
	envPre.pre = true
	fe.callOrd[fc.Key]++
	// ghost: how often this call site has been executed (siteCount(Key, k) in specifications)
	{
		cn := fmt.Sprintf("SITE.%s#%d", fc.Key, fe.callOrd[fc.Key])
		fe.setComp(st, cn, sInt, tArith("+", fe.getComp(st, cn, sInt), tInt(1)))
	}
	fe.cutPointsAt(st, fc.Key, fe.callOrd[fc.Key], pos, false)
	for i := range fc.Requires {
		cl := &fc.Requires[i]
		if cl.Invariant {
			// object invariant: assumed by the callee, established where the object is built (stated there), not re-proved per call
			fe.assumed["object invariant assumed on entry of "+fc.Key+": "+cl.Label] = true
			continue
		}
		props := cl.Props
		if props == nil {
			props = fc.Props
		}
		props = unionProps(props, fe.propsFor(nil))
		fe.addOblExpr(st, "pre", fmt.Sprintf("%s:%s@%d", fc.Key, cl.Label, fe.callOrd[fc.Key]), props, cl.E, envPre, pos)
	}
	ws := fe.c.writeSetOfInst(inst)
	fe.applyWriteSet(st, ws, fc.Key)
	rets := fe.freshResults(st, sig, callee.Name())
	env := fe.callEnv(pre, st, fc, callee, inst, args, bindings, rets)
	for i := range fc.Ensures {
		cl := &fc.Ensures[i]
		fe.assumeClause(st, fmt.Sprintf("call.%s@%d.%s", fc.Key, fe.callOrd[fc.Key], cl.Label), cl.E, env)
	}
	if fc.Trusted {
		fe.assumed["trusted contract: "+fc.Key] = true
	}
	fe.setResult(st, res, sig, rets)
	fe.cutPoints(st, fc.Key, fe.callOrd[fc.Key], pos)
}

// cutPoints: `assert [label] after call Key#k: e` clauses of the function under verification: proved here, usable afterwards
func (fe *FnEnc) cutPoints(st *State, key string, ord int, pos token.Pos) {
	fe.cutPointsAt(st, key, ord, pos, true)
}

func (fe *FnEnc) cutPointsAt(st *State, key string, ord int, pos token.Pos, after bool) {
	if fe.contract == nil || fe.dry {
		return
	}
	callText := ""
	for i := range fe.contract.Asserts {
		as := &fe.contract.Asserts[i]
		if as.After != after {
			continue
		}
		if as.Text != "" {
			if callText == "" {
				callText = fe.callSrc(pos)
			}
			anchor := ""
			for _, v := range fe.anchorVariants(as.Text) {
				if strings.Contains(callText, v) {
					anchor = v
					break
				}
			}
			if anchor == "" {
				continue
			}
			// "text"#k: only the k-th call site (in source order) whose text contains the text
			if as.K > 0 && fe.textOrdinalAny(pos, fe.anchorVariants(as.Text)) != as.K {
				continue
			}
		} else if as.Callee != key || as.K != ord {
			continue
		}
		if fe.assertFired == nil {
			fe.assertFired = map[int]bool{}
		}
		fe.assertFired[i] = true
		var l *Loop
		for _, cand := range fe.loops {
			if fe.curBlock != nil && cand.blocks[fe.curBlock] {
				l = cand // innermost last (loops are sorted outer first by position)
			}
		}
		env := fe.loopEnv(st, l)
		for i, a := range fe.lastArgs {
			if a.Valid && a.Typ != nil && a.Clos == nil && len(a.Tuple) == 0 && a.A == nil && a.T.S != "" {
				env.names[fmt.Sprintf("arg%d", i)] = SVal{T: a.T, Typ: a.Typ}
			}
		}
		if after {
			for i, r := range fe.lastRets {
				sv := SVal{T: r.T, Typ: r.Typ}
				if i == 0 {
					env.names["ret"] = sv
				}
				env.names[fmt.Sprintf("ret%d", i)] = sv
			}
		}
		if as.Assume {
			fe.assumed["assumed in the contract of "+fe.contract.Key+" at \""+as.Text+"\": ["+as.Label+"] "+as.Src] = true
			fe.assumeClause(st, "assume."+as.Label, as.E, env)
			continue
		}
		o := fe.addOblExpr(st, "assert", as.Label, fe.propsFor(&as.Clause), as.E, env, pos)
		ord0 := 0
		if l != nil {
			ord0 = l.ord
		}
		o.Uses = resolveUses(as.Uses, ord0, "")
		fe.assumeClause(st, "assert."+as.Label, as.E, env)
	}
}

func unionProps(a, b []string) []string {
	seen := map[string]bool{}
	var out []string
	for _, x := range append(append([]string{}, a...), b...) {
		if !seen[x] {
			seen[x] = true
			out = append(out, x)
		}
	}
	return out
}

// callInvoke handles interface method calls through interface contracts or the effects table.
func (fe *FnEnc) callInvoke(st *State, instr ssa.Instruction, common *ssa.CallCommon, recv RV, args []RV, res ssa.Value) {
	sig := common.Signature()
	pos := instr.Pos()
	iface := common.Value.Type()
	tn := recvTypeName(iface)
	mname := common.Method.Name()
	fe.safety(st, "nil", pos, tNot(tEq(ifTyp(fe.val(recv)), tInt(0))))
	// contract on the interface method?
	for _, k := range sortedKeys(fe.c.contracts) {
		cf := fe.c.contracts[k]
		if fc, ok := cf.Funcs[tn+"."+mname]; ok && fc.IsIface {
			fe.applyIfaceContract(st, instr, cf, fc, recv, args, res, sig)
			return
		}
	}
	full := ""
	if n, ok := derefNamed(iface); ok && n.Obj().Pkg() != nil {
		full = n.Obj().Pkg().Path() + "." + n.Obj().Name() + "." + mname
	} else {
		full = "iface." + mname
	}
	if h, ok := effects[full]; ok {
		shortI := tn + "." + mname
		fe.callOrd[shortI]++
		fe.cutPointsAt(st, shortI, fe.callOrd[shortI], pos, false)
		rets := h(fe, st, nil, append([]RV{recv}, args...), pos)
		fe.assumed["stdlib: "+full] = true
		if rets == nil && sig.Results().Len() > 0 {
			rets = fe.freshResults(st, sig, mname)
		}
		fe.notOwnErrors(sig, rets)
		fe.setResult(st, res, sig, rets)
		return
	}
	if mname == "Write" || mname == "WriteString" || mname == "ReadFrom" {
		bumpFeeds(fe, st)
	}
	if n, ok := derefNamed(iface); ok && n.Obj().Pkg() != nil && purePkgs[n.Obj().Pkg().Path()] || mname == "Error" {
		fe.assumed["external call assumed not to modify contract-visible memory: "+full] = true
		shortI := tn + "." + mname
		fe.callOrd[shortI]++
		fe.cutPointsAt(st, shortI, fe.callOrd[shortI], pos, false)
		fe.havocComp(st, "alloc", sInt)
		fe.setResult(st, res, sig, fe.freshResults(st, sig, mname))
		fe.cutPointsAt(st, shortI, fe.callOrd[shortI], pos, true)
		return
	}
	fe.havocs[full] = true
	shortI := tn + "." + mname
	fe.callOrd[shortI]++
	fe.cutPointsAt(st, shortI, fe.callOrd[shortI], pos, false)
	fe.havocAll(st)
	fe.setResult(st, res, sig, fe.freshResults(st, sig, mname))
	fe.cutPointsAt(st, shortI, fe.callOrd[shortI], pos, true)
}

func (fe *FnEnc) applyIfaceContract(st *State, instr ssa.Instruction, cf *ContractFile, fc *FuncContract, recv RV, args []RV, res ssa.Value, sig *types.Signature) {
	pos := instr.Pos()
	mkEnv := func(pre, post *State, rets []RV) *Env {
		env := fe.baseEnv(post)
		env.old = pre
		env.cf = cf
		if p := fe.c.pkgs[cf.Pkg]; p != nil {
			env.pkg = p.Pkg
		}
		rt := instr.(ssa.CallInstruction).Common().Value.Type()
		sv := SVal{T: fe.val(recv), Typ: rt}
		env.names[fc.RecvName] = sv
		env.oldNames[fc.RecvName] = sv
		for i, a := range args {
			if i < len(fc.Params) {
				v := SVal{T: fe.val(a), Typ: sig.Params().At(i).Type()}
				env.names[fc.Params[i]] = v
				env.oldNames[fc.Params[i]] = v
			}
		}
		if rets != nil {
			fe.bindResults(env, fc, rets)
		}
		return env
	}
	// write set
	ws := newWriteSet()
	for _, m := range fc.Modifies {
		if m == "*" {
			ws.all = true
			continue
		}
		for n, s := range fe.resolveModifiesAll(m) {
			ws.comps[n] = s
		}
	}
	if fe.dry {
		fe.applyWriteSet(st, ws, fc.Key)
		fe.setResult(st, res, sig, fe.freshResults(st, sig, fc.Key))
		return
	}
	pre := st.clone()
	envPre := mkEnv(pre, pre, nil)
	fe.callOrd[fc.Key]++
	fe.cutPointsAt(st, fc.Key, fe.callOrd[fc.Key], pos, false)
	for i := range fc.Requires {
		cl := &fc.Requires[i]
		props := cl.Props
		if props == nil {
			props = fc.Props
		}
		props = unionProps(props, fe.propsFor(nil))
		fe.addOblExpr(st, "pre", fmt.Sprintf("%s:%s@%d", fc.Key, cl.Label, fe.callOrd[fc.Key]), props, cl.E, envPre, pos)
	}
	fe.applyWriteSet(st, ws, fc.Key)
	rets := fe.freshResults(st, sig, fc.Key)
	env := mkEnv(pre, st, rets)
	for i := range fc.Ensures {
		cl := &fc.Ensures[i]
		fe.assumeClause(st, fmt.Sprintf("call.%s@%d.%s", fc.Key, fe.callOrd[fc.Key], cl.Label), cl.E, env)
	}
	fe.setResult(st, res, sig, rets)
	fe.cutPointsAt(st, fc.Key, fe.callOrd[fc.Key], pos, true)
	fe.assumed["interface contract (assumed for callers): "+fc.Key] = true
	fe.setResult(st, res, sig, rets)
}

// callCallback: call through a function-typed struct field with a callback contract
func (fe *FnEnc) callCallback(st *State, instr ssa.Instruction, common *ssa.CallCommon, fnRV RV, args []RV, res ssa.Value) bool {
	// either a named function type with a callback contract, or a function-typed struct field
	var key, fname string
	var ownerV ssa.Value
	if n, ok := types.Unalias(common.Value.Type()).(*types.Named); ok {
		key, fname = n.Obj().Name(), n.Obj().Name()
	}
	if ld, ok := common.Value.(*ssa.UnOp); ok && ld.Op == token.MUL {
		if fa, ok := ld.X.(*ssa.FieldAddr); ok {
			stT := fa.X.Type().Underlying().(*types.Pointer).Elem()
			k2 := recvTypeName(stT) + "." + structOf(stT).Field(fa.Field).Name()
			for _, k := range sortedKeys(fe.c.contracts) {
				if fc, ok := fe.c.contracts[k].Funcs[k2]; ok && fc.IsCB {
					key, fname, ownerV = k2, structOf(stT).Field(fa.Field).Name(), fa.X
				}
			}
		}
	}
	if key == "" {
		return false
	}
	sig := common.Signature()
	for _, k := range sortedKeys(fe.c.contracts) {
		cf := fe.c.contracts[k]
		fc, ok := cf.Funcs[key]
		if !ok || !fc.IsCB {
			continue
		}
		var owner RV
		var ownerT types.Type
		if ownerV != nil {
			owner = fe.get(st, ownerV)
			ownerT = ownerV.Type()
		}
		ws := newWriteSet()
		for _, m := range fc.Modifies {
			if m == "*" {
				ws.all = true
				continue
			}
			for n, s := range fe.resolveModifiesAll(m) {
				ws.comps[n] = s
			}
		}
		if fe.dry {
			fe.applyWriteSet(st, ws, fc.Key)
			fe.setResult(st, res, sig, fe.freshResults(st, sig, fname))
			return true
		}
		mkEnv := func(pre, post *State, rets []RV) *Env {
			env := fe.baseEnv(post)
			env.old = pre
			env.cf = cf
			if p := fe.c.pkgs[cf.Pkg]; p != nil {
				env.pkg = p.Pkg
			}
			if ownerV != nil {
				sv := SVal{T: fe.val(owner), Typ: ownerT}
				env.names[fc.RecvName] = sv
				env.oldNames[fc.RecvName] = sv
			}
			for i, a := range args {
				if i < len(fc.Params) {
					v := SVal{T: fe.val(a), Typ: sig.Params().At(i).Type()}
					env.names[fc.Params[i]] = v
					env.oldNames[fc.Params[i]] = v
				}
			}
			if rets != nil {
				fe.bindResults(env, fc, rets)
			}
			return env
		}
		pre := st.clone()
		envPre := mkEnv(pre, pre, nil)
		fe.callOrd[fc.Key]++
		fe.cutPointsAt(st, fc.Key, fe.callOrd[fc.Key], instr.Pos(), false)
		for i := range fc.Requires {
			cl := &fc.Requires[i]
			fe.addOblExpr(st, "pre", fmt.Sprintf("%s:%s@%d", fc.Key, cl.Label, fe.callOrd[fc.Key]), unionProps(fc.Props, fe.propsFor(nil)), cl.E, envPre, instr.Pos())
		}
		fe.applyWriteSet(st, ws, fc.Key)
		rets := fe.freshResults(st, sig, fname)
		env := mkEnv(pre, st, rets)
		for i := range fc.Ensures {
			cl := &fc.Ensures[i]
			fe.assumeClause(st, fmt.Sprintf("call.%s@%d.%s", fc.Key, fe.callOrd[fc.Key], cl.Label), cl.E, env)
		}
		fe.assumed["callback contract (assumed): "+fc.Key] = true
		fe.setResult(st, res, sig, rets)
		fe.cutPointsAt(st, fc.Key, fe.callOrd[fc.Key], instr.Pos(), true)
		return true
	}
	return false
}

// ---------------------------------------------------------------------
// builtins

func (fe *FnEnc) callBuiltin(st *State, b *ssa.Builtin, common *ssa.CallCommon, args []RV, res ssa.Value, pos token.Pos) {
	set := func(t Term) {
		if res != nil {
			fe.setReg(res, RV{T: t})
		}
	}
	switch b.Name() {
	case "len", "cap":
		v := fe.val(args[0])
		switch t := common.Args[0].Type().Underlying().(type) {
		case *types.Slice:
			if b.Name() == "len" {
				set(slLen(v))
			} else {
				set(slCap(v))
			}
		case *types.Basic:
			set(Term{app("strlen", v), sInt})
		case *types.Map:
			set(fe.mapLen(st, t, v, false))
		case *types.Array:
			set(tInt(t.Len()))
		case *types.Pointer:
			set(tInt(t.Elem().Underlying().(*types.Array).Len()))
		case *types.Chan:
			r := fe.fresh("chanlen", sInt)
			fe.assume(st, tCmp(">=", r, tInt(0)))
			set(r)
		default:
			fe.unsupported("len of %s", common.Args[0].Type())
			set(fe.fresh("len", sInt))
		}
	case "append":
		fe.builtinAppend(st, common, args, res)
	case "copy":
		fe.builtinCopy(st, common, args, res)
	case "delete":
		mt := common.Args[0].Type().Underlying().(*types.Map)
		fe.mapDelete(st, mt, fe.val(args[0]), fe.val(args[1]))
	case "close":
	case "print", "println":
	case "min", "max":
		op := "<="
		if b.Name() == "max" {
			op = ">="
		}
		cur := fe.val(args[0])
		for _, a := range args[1:] {
			v := fe.val(a)
			cur = tIte(tCmp(op, cur, v), cur, v)
		}
		set(cur)
	case "ssa:deferstack":
		set(tInt(0))
	case "recover":
		set(nilIface)
	default:
		fe.unsupported("builtin %s", b.Name())
		if res != nil {
			fe.setReg(res, RV{T: fe.fresh("builtin", fe.sorts.sortOf(res.Type()))})
		}
	}
}

// rowFrame: replacing one row of an element heap leaves the other rows alone (stated with triggers in both directions).
func (fe *FnEnc) rowFrame(hOld, hNew, row Term) {
	if fe.dry || hOld.S == hNew.S {
		return
	}
	fe.emit(fmt.Sprintf("(assert (forall ((r Int)) (! (=> (not (= r %s)) (= (select %s r) (select %s r))) :pattern ((select %s r)) :pattern ((select %s r)))))",
		row.S, hNew.S, hOld.S, hNew.S, hOld.S))
}

// constLen recognises slices made from a fresh fixed-size array (variadic argument packs).
func constLen(v ssa.Value) (int64, bool) {
	if s, ok := v.(*ssa.Slice); ok && s.Low == nil && s.High == nil {
		if a, ok := s.X.(*ssa.Alloc); ok {
			if arr, ok := a.Type().Underlying().(*types.Pointer).Elem().Underlying().(*types.Array); ok {
				return arr.Len(), true
			}
		}
	}
	return 0, false
}

func (fe *FnEnc) builtinAppend(st *State, common *ssa.CallCommon, args []RV, res ssa.Value) {
	s := fe.val(args[0])
	st0 := common.Args[0].Type().Underlying().(*types.Slice)
	el := st0.Elem()
	es := fe.sorts.sortOf(el)
	cn, cs := compElems(es), arrSort(sInt, arrSort(sInt, es))
	fe.compT[cn] = el
	rowS := arrSort(sInt, es)
	var n Term
	var srcRow, srcOff Term
	isStr := false
	if bt, ok := common.Args[1].Type().Underlying().(*types.Basic); ok && bt.Info()&types.IsString != 0 {
		isStr = true
		n = Term{app("strlen", fe.val(args[1])), sInt}
	} else {
		t := fe.val(args[1])
		n = slLen(t)
		h := fe.getComp(st, cn, cs)
		srcRow, srcOff = tSel(h, slArr(t)), slOff(t)
	}
	if fe.dry {
		fe.setComp(st, cn, cs, fe.getComp(st, cn, cs))
		fe.newRef(st)
		if res != nil {
			fe.setReg(res, RV{T: s})
		}
		return
	}
	h := fe.getComp(st, cn, cs)
	ln := fe.define("app.len", slLen(s))
	nn := fe.define("app.n", n)
	fits := fe.define("app.fits", tCmp("<=", tArith("+", ln, nn), slCap(s)))
	fresh := fe.newRef(st)
	ra := fe.define("app.arr", tIte(fits, slArr(s), fresh))
	ro := fe.define("app.off", tIte(fits, slOff(s), tInt(0)))
	oldRow := tSel(h, slArr(s))
	var newRow Term
	k, isConst := constLen(common.Args[1])
	if isConst && !isStr && k <= 4 {
		// in place: explicit stores; reallocation: quantified copy
		inplace := oldRow
		for j := int64(0); j < k; j++ {
			inplace = tStore(inplace, tArith("+", tArith("+", slOff(s), ln), tInt(j)), tSel(srcRow, tArith("+", srcOff, tInt(j))))
		}
		fr := fe.fresh("app.row", rowS)
		fe.emit(fmt.Sprintf("(assert (forall ((p Int)) (! (=> (and (<= 0 p) (< p %s)) (= (select %s p) (select %s (+ p %s)))) :pattern ((select %s p)))))",
			ln.S, fr.S, oldRow.S, slOff(s).S, fr.S))
		// the same fact, triggered from the old row (gives witnesses for existential goals about the result)
		fe.emit(fmt.Sprintf("(assert (forall ((p Int)) (! (=> (and (<= %s p) (< p (+ %s %s))) (= (select %s (- p %s)) (select %s p))) :pattern ((select %s p)))))",
			slOff(s).S, slOff(s).S, ln.S, fr.S, slOff(s).S, oldRow.S, oldRow.S))
		for j := int64(0); j < k; j++ {
			fe.emit(fmt.Sprintf("(assert (= (select %s (+ %s %d)) %s))", fr.S, ln.S, j, tSel(srcRow, tArith("+", srcOff, tInt(j))).S))
		}
		ip := fe.define("app.inplace", inplace)
		if ip.S != oldRow.S {
			// elements known in the old row are known in the in-place result (witnesses), and vice versa
			var ne []string
			for j := int64(0); j < k; j++ {
				ne = append(ne, fmt.Sprintf("(not (= p (+ %s %s %d)))", slOff(s).S, ln.S, j))
			}
			cond := "(and " + strings.Join(ne, " ") + ")"
			if len(ne) == 1 {
				cond = ne[0]
			}
			fe.emit(fmt.Sprintf("(assert (forall ((p Int)) (! (=> %s (= (select %s p) (select %s p))) :pattern ((select %s p)) :pattern ((select %s p)))))",
				cond, ip.S, oldRow.S, oldRow.S, ip.S))
		}
		newRow = fe.define("app.newrow", tIte(fits, ip, fr))
		// the appended elements, as ground facts about the result row
		for j := int64(0); j < k; j++ {
			fe.emit(fmt.Sprintf("(assert (= (select %s (+ %s %s %d)) %s))", newRow.S, ro.S, ln.S, j, tSel(srcRow, tArith("+", srcOff, tInt(j))).S))
		}
	} else {
		fr := fe.fresh("app.row", rowS)
		// copied prefix
		fe.emit(fmt.Sprintf("(assert (forall ((p Int)) (! (=> (and (<= %s p) (< p (+ %s %s))) (= (select %s p) (select %s (+ (- p %s) %s)))) :pattern ((select %s p)))))",
			ro.S, ro.S, ln.S, fr.S, oldRow.S, ro.S, slOff(s).S, fr.S))
		fe.emit(fmt.Sprintf("(assert (forall ((p Int)) (! (=> (and (<= %s p) (< p (+ %s %s))) (= (select %s (+ (- p %s) %s)) (select %s p))) :pattern ((select %s p)))))",
			slOff(s).S, slOff(s).S, ln.S, fr.S, slOff(s).S, ro.S, oldRow.S, oldRow.S))
		if !isStr {
			fe.emit(fmt.Sprintf("(assert (forall ((p Int)) (! (=> (and (<= (+ %s %s) p) (< p (+ %s %s %s))) (= (select %s p) (select %s (+ (- p (+ %s %s)) %s)))) :pattern ((select %s p)))))",
				ro.S, ln.S, ro.S, ln.S, nn.S, fr.S, srcRow.S, ro.S, ln.S, srcOff.S, fr.S))
			fe.emit(fmt.Sprintf("(assert (forall ((p Int)) (! (=> (and (<= %s p) (< p (+ %s %s))) (= (select %s (+ (- p %s) %s %s)) (select %s p))) :pattern ((select %s p)))))",
				srcOff.S, srcOff.S, nn.S, fr.S, srcOff.S, ro.S, ln.S, srcRow.S, srcRow.S))
		}
		// in place: everything outside the appended window is unchanged
		fe.emit(fmt.Sprintf("(assert (=> %s (forall ((p Int)) (! (=> (or (< p (+ %s %s)) (>= p (+ %s %s %s))) (= (select %s p) (select %s p))) :pattern ((select %s p))))))",
			fits.S, ro.S, ln.S, ro.S, ln.S, nn.S, fr.S, oldRow.S, fr.S))
		newRow = fr
	}
	fe.setComp(st, cn, cs, tStore(h, ra, newRow))
	fe.emit("(assert (= (select " + fe.getComp(st, cn, cs).S + " " + ra.S + ") " + newRow.S + "))")
	fe.rowFrame(h, fe.getComp(st, cn, cs), ra)
	ncap := fe.fresh("app.cap", sInt)
	fe.emit(fmt.Sprintf("(assert (and (>= %s (+ %s %s)) (=> %s (= %s %s))))", ncap.S, ln.S, nn.S, fits.S, ncap.S, slCap(s).S))
	// appending nothing to a nil slice yields nil
	r := mkSlice(ra, ro, tArith("+", ln, nn), ncap)
	r = tIte(tAnd(tEq(slArr(s), tInt(0)), tEq(nn, tInt(0))), s, r)
	if res != nil {
		fe.setReg(res, RV{T: r})
	}
}

func (fe *FnEnc) builtinCopy(st *State, common *ssa.CallCommon, args []RV, res ssa.Value) {
	d := fe.val(args[0])
	el := common.Args[0].Type().Underlying().(*types.Slice).Elem()
	es := fe.sorts.sortOf(el)
	cn, cs := compElems(es), arrSort(sInt, arrSort(sInt, es))
	rowS := arrSort(sInt, es)
	h := fe.getComp(st, cn, cs)
	if fe.dry {
		fe.setComp(st, cn, cs, h)
		if res != nil {
			fe.setReg(res, RV{T: tInt(0)})
		}
		return
	}
	var n Term
	isStr := false
	var src Term
	if bt, ok := common.Args[1].Type().Underlying().(*types.Basic); ok && bt.Info()&types.IsString != 0 {
		isStr = true
		n = Term{app("strlen", fe.val(args[1])), sInt}
	} else {
		src = fe.val(args[1])
		n = slLen(src)
	}
	cnt := fe.define("copy.n", tIte(tCmp("<=", slLen(d), n), slLen(d), n))
	fr := fe.fresh("copy.row", rowS)
	oldRow := tSel(h, slArr(d))
	if !isStr {
		srcRow := tSel(h, slArr(src))
		fe.emit(fmt.Sprintf("(assert (forall ((p Int)) (! (=> (and (<= %s p) (< p (+ %s %s))) (= (select %s p) (select %s (+ (- p %s) %s)))) :pattern ((select %s p)))))",
			slOff(d).S, slOff(d).S, cnt.S, fr.S, srcRow.S, slOff(d).S, slOff(src).S, fr.S))
	}
	fe.emit(fmt.Sprintf("(assert (forall ((p Int)) (! (=> (or (< p %s) (>= p (+ %s %s))) (= (select %s p) (select %s p))) :pattern ((select %s p)))))",
		slOff(d).S, slOff(d).S, cnt.S, fr.S, oldRow.S, fr.S))
	fe.setComp(st, cn, cs, tIte(tEq(slArr(d), tInt(0)), h, tStore(h, slArr(d), fr)))
	fe.rowFrame(h, fe.getComp(st, cn, cs), slArr(d))
	if res != nil {
		fe.setReg(res, RV{T: cnt})
	}
}

// closureCtor recognises functions of the shape `func f(p...) T { return func(...) {... p ...} }`:
// it returns the closure and, per free variable, the index of the parameter it captures.
func closureCtor(fn *ssa.Function) (*ssa.Function, []int) {
	if len(fn.Blocks) != 1 {
		return nil, nil
	}
	var mc *ssa.MakeClosure
	for _, ins := range fn.Blocks[0].Instrs {
		switch x := ins.(type) {
		case *ssa.MakeClosure:
			if mc != nil {
				return nil, nil
			}
			mc = x
		case *ssa.Call, *ssa.Go, *ssa.Defer:
			if c, ok := ins.(*ssa.Call); ok {
				if b, ok := c.Call.Value.(*ssa.Builtin); ok && b.Name() == "ssa:deferstack" {
					continue
				}
			}
			return nil, nil
		}
	}
	if mc == nil {
		return nil, nil
	}
	var idx []int
	for _, b := range mc.Bindings {
		a, ok := b.(*ssa.Alloc)
		if !ok {
			return nil, nil
		}
		found := -1
		for _, ref := range *a.Referrers() {
			if s, ok := ref.(*ssa.Store); ok && s.Addr == ssa.Value(a) {
				if p, ok := s.Val.(*ssa.Parameter); ok {
					for i, q := range fn.Params {
						if q == p {
							found = i
						}
					}
				}
			}
		}
		if found < 0 {
			return nil, nil
		}
		idx = append(idx, found)
	}
	return mc.Fn.(*ssa.Function), idx
}

// fsReadOnly lists the functions of package os (and methods of *os.File, os.FileInfo, os.DirEntry) that cannot
// create, modify or delete anything; every other function of the packages in fsPkgs counts as a write.
var fsReadOnly = map[string]bool{
	"os.Stat": true, "os.Lstat": true, "os.Open": true, "os.ReadFile": true, "os.ReadDir": true, "os.IsNotExist": true, "os.IsExist": true,
	"os.IsPermission": true, "os.Getenv": true, "os.LookupEnv": true, "os.Getwd": true, "os.Getpid": true, "os.Hostname": true, "os.Exit": true,
	"os.DirFS": true, "os.SameFile": true, "os.IsPathSeparator": true, "os.TempDir": true, "os.UserHomeDir": true, "os.Environ": true,
	"(*os.File).Close": true, "(*os.File).Read": true, "(*os.File).ReadAt": true, "(*os.File).Seek": true, "(*os.File).Stat": true,
	"(*os.File).Name": true, "(*os.File).ReadDir": true, "(*os.File).Readdir": true, "(*os.File).Readdirnames": true, "(*os.File).Fd": true,
	"(*os.File).ReadFrom": false, "(*os.File).WriteTo": true,
	// writes through an open handle are attributed to the call that opened the file for writing
	"(*os.File).Write": true, "(*os.File).WriteString": true, "(*os.File).WriteAt": true, "(*os.File).Sync": true,
	"(*os.PathError).Error": true, "(*os.PathError).Unwrap": true, "(*os.LinkError).Error": true, "(*os.SyscallError).Error": true,
	"os/signal.Notify": true, "os/signal.Stop": true,
}

var fsPkgs = map[string]bool{"os": true, "io/ioutil": true, "os/exec": true, "syscall": true}

func fsMutating(callee *ssa.Function) bool {
	var pkg string
	if callee.Pkg != nil {
		pkg = callee.Pkg.Pkg.Path()
	} else if r := callee.Signature.Recv(); r != nil {
		if n, ok := derefNamed(r.Type()); ok && n.Obj().Pkg() != nil {
			pkg = n.Obj().Pkg().Path()
		}
	} else if o := callee.Object(); o != nil && o.Pkg() != nil {
		pkg = o.Pkg().Path()
	}
	if !fsPkgs[pkg] {
		return false
	}
	return !fsReadOnly[callee.String()]
}

// goPreconditions: `go f(args)` with f under contract: f's (non-invariant) preconditions must hold when it is spawned.
// Sound only for facts no other goroutine invalidates before f starts; the contracts used this way speak about
// configuration that is never written after construction.
func (fe *FnEnc) goPreconditions(st *State, x *ssa.Go, fc *FuncContract, callee *ssa.Function) {
	var args []RV
	for _, a := range x.Call.Args {
		args = append(args, fe.get(st, a))
	}
	pre := st.clone()
	envPre := fe.callEnv(pre, pre, fc, callee, callee, args, nil, nil)
	envPre.pre = true
	fe.callOrd["go "+fc.Key]++
	for i := range fc.Requires {
		cl := &fc.Requires[i]
		if cl.Invariant || !cl.Stable {
			continue
		}
		props := cl.Props
		if props == nil {
			props = fc.Props
		}
		fe.addOblExpr(st, "pre", fmt.Sprintf("go %s:%s@%d", fc.Key, cl.Label, fe.callOrd["go "+fc.Key]), unionProps(props, fe.propsFor(nil)), cl.E, envPre, x.Pos())
	}
}

// fsPathArgs: which arguments of the functions of package os are paths.
var fsPathArgs = map[string][]int{
	"os.Stat": {0}, "os.Lstat": {0}, "os.Open": {0}, "os.ReadFile": {0}, "os.ReadDir": {0}, "os.MkdirAll": {0}, "os.Mkdir": {0},
	"os.WriteFile": {0}, "os.Create": {0}, "os.CreateTemp": {0}, "os.MkdirTemp": {0}, "os.OpenFile": {0}, "os.Remove": {0}, "os.RemoveAll": {0},
	"os.Rename": {0, 1}, "os.Chtimes": {0}, "os.Chmod": {0}, "os.Chown": {0}, "os.Truncate": {0}, "os.Symlink": {0, 1}, "os.Link": {0, 1},
	"os.DirFS": {0}, "os.Readlink": {0}, "os.Chdir": {0},
}

// fsPathObligations: every path handed to package os must satisfy the fspath clauses of the function's contract (C16).
func (fe *FnEnc) fsPathObligations(st *State, callee *ssa.Function, args []RV, pos token.Pos) {
	if fe.dry || fe.contract == nil || len(fe.contract.FsPaths) == 0 || callee.Pkg == nil || !fsPkgs[callee.Pkg.Pkg.Path()] {
		return
	}
	idx, known := fsPathArgs[callee.String()]
	if !known {
		// unknown function of the package: every string argument is treated as a path
		for i := 0; i < callee.Signature.Params().Len(); i++ {
			if b, ok := callee.Signature.Params().At(i).Type().Underlying().(*types.Basic); ok && b.Info()&types.IsString != 0 {
				idx = append(idx, i)
			}
		}
	}
	for _, i := range idx {
		if i >= len(args) {
			continue
		}
		for k := range fe.contract.FsPaths {
			cl := &fe.contract.FsPaths[k]
			var l *Loop
			for _, cand := range fe.loops {
				if fe.curBlock != nil && cand.blocks[fe.curBlock] {
					l = cand
				}
			}
			env := fe.loopEnv(st, l)
			sv := SVal{T: fe.val(args[i]), Typ: types.Typ[types.String]}
			env.names["path"] = sv
			props := cl.Props
			if props == nil {
				props = []string{"C16"}
			}
			o := fe.addOblExpr(st, "fspath", cl.Label+":"+fe.srcText(pos, "path"), props, cl.E, env, pos)
			if o != nil {
				ord0 := 0
				if l != nil {
					ord0 = l.ord
				}
				o.Uses = resolveUses(cl.Uses, ord0, "")
			}
		}
	}
}

// stdlibNonNil: standard library functions whose first result is non-nil whenever the error result is nil
// (or unconditionally, for functions without error result): documented behaviour, assumed.
var stdlibNonNil = map[string]bool{
	"os.Stat": true, "os.Lstat": true, "os.Open": true, "os.Create": true, "os.OpenFile": true, "(*os.File).Stat": true,
	"time.NewTicker": true, "time.NewTimer": true, "time.AfterFunc": true, "log/slog.New": true, "log/slog.Default": true,
	"bytes.NewReader": true, "bytes.NewBuffer": true, "strings.NewReader": true, "context.Background": true, "context.TODO": true,
	"net/http.NewRequest": true, "(io/fs.DirEntry).Info": true, "(*log/slog.Logger).With": true, "regexp.MustCompile": true,
}

func (fe *FnEnc) nonNilOnSuccess(name string, sig *types.Signature, rets []RV) {
	if fe.dry || !stdlibNonNil[name] || len(rets) == 0 {
		return
	}
	fe.assumed["stdlib: "+name+" returns a non-nil first result on success"] = true
	r := rets[0].T
	var nonNil string
	switch r.Sort {
	case sInt:
		nonNil = "(not (= " + r.S + " 0))"
	case sIface:
		nonNil = "(not (= (i_typ " + r.S + ") 0))"
	default:
		return
	}
	if len(rets) >= 2 && rets[len(rets)-1].T.Sort == sIface {
		fe.emit("(assert (=> (= " + rets[len(rets)-1].T.S + " (mkIface 0 0)) " + nonNil + "))")
		return
	}
	fe.emit("(assert " + nonNil + ")")
}

// notOwnErrors: an error returned by a function outside the module is none of the module's sentinel errors.
func (fe *FnEnc) notOwnErrors(sig *types.Signature, rets []RV) {
	if fe.dry {
		return
	}
	for i, r := range rets {
		if i < sig.Results().Len() && r.T.Sort == sIface && sig.Results().At(i).Type().String() == "error" {
			fe.declFun("own.err", []string{sIface}, sBool)
			fe.emit("(assert (not (own.err " + r.T.S + ")))")
		}
	}
}

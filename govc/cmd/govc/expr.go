package main

import (
	"fmt"
	"strings"
	"unicode"
)

// Spec expression AST.
type Expr interface{}

type (
	EId   struct{ Name string }
	EInt  struct{ V string }
	EStr  struct{ V string }
	EBool struct{ V bool }
	ENil  struct{}
	ESel  struct {
		X Expr
		F string
	}
	EIdx struct{ X, I Expr }
	ESub struct { // x[lo:hi]
		X, Lo, Hi Expr
	}
	ECall struct {
		Fn   string
		Args []Expr
	}
	EUn struct {
		Op string
		X  Expr
	}
	EBin struct {
		Op   string
		L, R Expr
	}
	Binder struct{ Name, Type string }
	EQuant struct {
		Forall bool
		Vars   []Binder
		Body   Expr
		Trigs  [][]Expr
	}
	ECond struct{ C, A, B Expr }
	EIn   struct{ K, M Expr }
)

type ltoken struct {
	kind string // id int str op eof
	text string
}

type lexer struct {
	src  []rune
	pos  int
	toks []ltoken
}

func lex(src string) ([]ltoken, error) {
	l := &lexer{src: []rune(src)}
	for {
		for l.pos < len(l.src) && unicode.IsSpace(l.src[l.pos]) {
			l.pos++
		}
		if l.pos >= len(l.src) {
			break
		}
		c := l.src[l.pos]
		switch {
		case unicode.IsLetter(c) || c == '_':
			st := l.pos
			for l.pos < len(l.src) && (unicode.IsLetter(l.src[l.pos]) || unicode.IsDigit(l.src[l.pos]) || l.src[l.pos] == '_' || l.src[l.pos] == '$' || l.src[l.pos] == '#') {
				l.pos++
			}
			l.toks = append(l.toks, ltoken{"id", string(l.src[st:l.pos])})
		case unicode.IsDigit(c):
			st := l.pos
			for l.pos < len(l.src) && (unicode.IsDigit(l.src[l.pos]) || l.src[l.pos] == '_') {
				l.pos++
			}
			l.toks = append(l.toks, ltoken{"int", strings.ReplaceAll(string(l.src[st:l.pos]), "_", "")})
		case c == '"':
			st := l.pos + 1
			l.pos++
			for l.pos < len(l.src) && l.src[l.pos] != '"' {
				l.pos++
			}
			if l.pos >= len(l.src) {
				return nil, fmt.Errorf("unterminated string")
			}
			l.toks = append(l.toks, ltoken{"str", string(l.src[st:l.pos])})
			l.pos++
		default:
			ops := []string{"<==>", "==>", "::", "==", "!=", "<=", ">=", "&&", "||", "(", ")", "[", "]", "{", "}", ",", ".", "<", ">", "+", "-", "*", "/", "%", "!", "?", ":"}
			found := false
			for _, op := range ops {
				if strings.HasPrefix(string(l.src[l.pos:min(len(l.src), l.pos+4)]), op) {
					l.toks = append(l.toks, ltoken{"op", op})
					l.pos += len([]rune(op))
					found = true
					break
				}
			}
			if !found {
				return nil, fmt.Errorf("unexpected character %q", c)
			}
		}
	}
	l.toks = append(l.toks, ltoken{"eof", ""})
	return l.toks, nil
}

type parser struct {
	toks []ltoken
	p    int
}

func parseExpr(src string) (e Expr, err error) {
	toks, err := lex(src)
	if err != nil {
		return nil, err
	}
	ps := &parser{toks: toks}
	defer func() {
		if r := recover(); r != nil {
			err = fmt.Errorf("parse error in %q: %v", src, r)
		}
	}()
	e = ps.expr()
	if ps.peek().kind != "eof" {
		panic(fmt.Sprintf("trailing tokens at %q", ps.peek().text))
	}
	return e, nil
}

func (ps *parser) peek() ltoken { return ps.toks[ps.p] }
func (ps *parser) next() ltoken { t := ps.toks[ps.p]; ps.p++; return t }
func (ps *parser) isOp(s string) bool {
	t := ps.peek()
	return t.kind == "op" && t.text == s
}
func (ps *parser) isId(s string) bool {
	t := ps.peek()
	return t.kind == "id" && t.text == s
}
func (ps *parser) expect(s string) {
	t := ps.next()
	if t.text != s {
		panic(fmt.Sprintf("expected %q, got %q", s, t.text))
	}
}

// expr := quant | cond
func (ps *parser) expr() Expr {
	if ps.isId("forall") || ps.isId("exists") {
		fa := ps.next().text == "forall"
		var vars []Binder
		for {
			var names []string
			names = append(names, ps.next().text)
			for ps.isOp(",") {
				ps.next()
				names = append(names, ps.next().text)
			}
			ps.expect(":")
			typ := ps.typeName()
			for _, n := range names {
				vars = append(vars, Binder{n, typ})
			}
			if ps.isOp("::") {
				break
			}
			ps.expect(",")
		}
		ps.expect("::")
		var trigs [][]Expr
		for ps.isOp("{") {
			ps.next()
			var tr []Expr
			tr = append(tr, ps.expr())
			for ps.isOp(",") {
				ps.next()
				tr = append(tr, ps.expr())
			}
			ps.expect("}")
			trigs = append(trigs, tr)
		}
		body := ps.expr()
		return EQuant{fa, vars, body, trigs}
	}
	return ps.iff()
}

func (ps *parser) typeName() string {
	s := ""
	for ps.isOp("*") || ps.isOp("[") {
		if ps.isOp("*") {
			ps.next()
			s += "*"
		} else {
			ps.next()
			ps.expect("]")
			s += "[]"
		}
	}
	s += ps.next().text
	for ps.isOp(".") {
		ps.next()
		s += "." + ps.next().text
	}
	return s
}

func (ps *parser) iff() Expr {
	l := ps.implies()
	for ps.isOp("<==>") {
		ps.next()
		r := ps.implies()
		l = EBin{"<==>", l, r}
	}
	return l
}

func (ps *parser) implies() Expr {
	l := ps.cond()
	if ps.isOp("==>") {
		ps.next()
		var r Expr
		if ps.isId("forall") || ps.isId("exists") {
			r = ps.expr()
		} else {
			r = ps.implies()
		}
		return EBin{"==>", l, r}
	}
	return l
}

func (ps *parser) cond() Expr {
	c := ps.or()
	if ps.isOp("?") {
		ps.next()
		a := ps.cond()
		ps.expect(":")
		b := ps.cond()
		return ECond{c, a, b}
	}
	return c
}

func (ps *parser) or() Expr {
	l := ps.and()
	for ps.isOp("||") {
		ps.next()
		var r Expr
		if ps.isId("forall") || ps.isId("exists") {
			r = ps.expr()
		} else {
			r = ps.and()
		}
		l = EBin{"||", l, r}
	}
	return l
}

func (ps *parser) and() Expr {
	l := ps.cmp()
	for ps.isOp("&&") {
		ps.next()
		var r Expr
		if ps.isId("forall") || ps.isId("exists") {
			r = ps.expr()
		} else {
			r = ps.cmp()
		}
		l = EBin{"&&", l, r}
	}
	return l
}

func isCmp(s string) bool {
	switch s {
	case "==", "!=", "<", "<=", ">", ">=":
		return true
	}
	return false
}

func (ps *parser) cmp() Expr {
	l := ps.add()
	if ps.isId("in") {
		ps.next()
		m := ps.add()
		return EIn{l, m}
	}
	var res Expr
	for ps.peek().kind == "op" && isCmp(ps.peek().text) {
		op := ps.next().text
		r := ps.add()
		c := EBin{op, l, r}
		if res == nil {
			res = c
		} else {
			res = EBin{"&&", res, c}
		}
		l = r
	}
	if res != nil {
		return res
	}
	return l
}

func (ps *parser) add() Expr {
	l := ps.mul()
	for ps.isOp("+") || ps.isOp("-") {
		op := ps.next().text
		r := ps.mul()
		l = EBin{op, l, r}
	}
	return l
}

func (ps *parser) mul() Expr {
	l := ps.unary()
	for ps.isOp("*") || ps.isOp("/") || ps.isOp("%") {
		op := ps.next().text
		r := ps.unary()
		l = EBin{op, l, r}
	}
	return l
}

func (ps *parser) unary() Expr {
	if ps.isOp("!") {
		ps.next()
		return EUn{"!", ps.unary()}
	}
	if ps.isOp("-") {
		ps.next()
		return EUn{"-", ps.unary()}
	}
	if ps.isOp("*") {
		ps.next()
		return EUn{"*", ps.unary()}
	}
	return ps.postfix()
}

func (ps *parser) postfix() Expr {
	e := ps.primary()
	for {
		switch {
		case ps.isOp("."):
			ps.next()
			f := ps.next()
			e = ESel{e, f.text}
		case ps.isOp("["):
			ps.next()
			if ps.isOp(":") {
				ps.next()
				hi := ps.expr()
				ps.expect("]")
				e = ESub{e, nil, hi}
				continue
			}
			i := ps.expr()
			if ps.isOp(":") {
				ps.next()
				var hi Expr
				if !ps.isOp("]") {
					hi = ps.expr()
				}
				ps.expect("]")
				e = ESub{e, i, hi}
				continue
			}
			ps.expect("]")
			e = EIdx{e, i}
		case ps.isOp("("):
			// call: only on identifiers / selector chains
			name := exprName(e)
			if name == "" {
				panic("call of non-name")
			}
			ps.next()
			var args []Expr
			if !ps.isOp(")") {
				args = append(args, ps.expr())
				for ps.isOp(",") {
					ps.next()
					args = append(args, ps.expr())
				}
			}
			ps.expect(")")
			e = ECall{name, args}
		default:
			return e
		}
	}
}

func exprName(e Expr) string {
	switch x := e.(type) {
	case EId:
		return x.Name
	case ESel:
		n := exprName(x.X)
		if n == "" {
			return ""
		}
		return n + "." + x.F
	}
	return ""
}

func (ps *parser) primary() Expr {
	t := ps.next()
	switch t.kind {
	case "int":
		return EInt{t.text}
	case "str":
		return EStr{t.text}
	case "id":
		switch t.text {
		case "true":
			return EBool{true}
		case "false":
			return EBool{false}
		case "nil":
			return ENil{}
		}
		return EId{t.text}
	case "op":
		if t.text == "(" {
			e := ps.expr()
			ps.expect(")")
			return e
		}
	}
	panic(fmt.Sprintf("unexpected token %q", t.text))
}

var renameCounter int

// substitute replaces free identifiers by expressions (macro expansion of preds).
func substExpr(e Expr, m map[string]Expr) Expr {
	switch x := e.(type) {
	case EId:
		if r, ok := m[x.Name]; ok {
			return r
		}
		return x
	case ESel:
		return ESel{substExpr(x.X, m), x.F}
	case EIdx:
		return EIdx{substExpr(x.X, m), substExpr(x.I, m)}
	case ESub:
		var lo, hi Expr
		if x.Lo != nil {
			lo = substExpr(x.Lo, m)
		}
		if x.Hi != nil {
			hi = substExpr(x.Hi, m)
		}
		return ESub{substExpr(x.X, m), lo, hi}
	case ECall:
		args := make([]Expr, len(x.Args))
		for i, a := range x.Args {
			args[i] = substExpr(a, m)
		}
		return ECall{x.Fn, args}
	case EUn:
		return EUn{x.Op, substExpr(x.X, m)}
	case EBin:
		return EBin{x.Op, substExpr(x.L, m), substExpr(x.R, m)}
	case ECond:
		return ECond{substExpr(x.C, m), substExpr(x.A, m), substExpr(x.B, m)}
	case EIn:
		return EIn{substExpr(x.K, m), substExpr(x.M, m)}
	case EQuant:
		// binders are renamed apart so that substituted arguments are never captured
		m2 := map[string]Expr{}
		for k, v := range m {
			m2[k] = v
		}
		vars := make([]Binder, len(x.Vars))
		for i, b := range x.Vars {
			renameCounter++
			nn := fmt.Sprintf("%s_%d", strings.SplitN(b.Name, "_", 2)[0], renameCounter)
			vars[i] = Binder{nn, b.Type}
			m2[b.Name] = EId{nn}
		}
		x.Vars = vars
		var trigs [][]Expr
		for _, tr := range x.Trigs {
			var t2 []Expr
			for _, t := range tr {
				t2 = append(t2, substExpr(t, m2))
			}
			trigs = append(trigs, t2)
		}
		return EQuant{x.Forall, x.Vars, substExpr(x.Body, m2), trigs}
	}
	return e
}

func exprString(e Expr) string {
	switch x := e.(type) {
	case EId:
		return x.Name
	case EInt:
		return x.V
	case EStr:
		return fmt.Sprintf("%q", x.V)
	case EBool:
		return fmt.Sprint(x.V)
	case ENil:
		return "nil"
	case ESel:
		return exprString(x.X) + "." + x.F
	case EIdx:
		return exprString(x.X) + "[" + exprString(x.I) + "]"
	case ESub:
		s := exprString(x.X) + "["
		if x.Lo != nil {
			s += exprString(x.Lo)
		}
		s += ":"
		if x.Hi != nil {
			s += exprString(x.Hi)
		}
		return s + "]"
	case ECall:
		var as []string
		for _, a := range x.Args {
			as = append(as, exprString(a))
		}
		return x.Fn + "(" + strings.Join(as, ", ") + ")"
	case EUn:
		return x.Op + exprString(x.X)
	case EBin:
		return "(" + exprString(x.L) + " " + x.Op + " " + exprString(x.R) + ")"
	case ECond:
		return "(" + exprString(x.C) + " ? " + exprString(x.A) + " : " + exprString(x.B) + ")"
	case EIn:
		return "(" + exprString(x.K) + " in " + exprString(x.M) + ")"
	case EQuant:
		kw := "exists"
		if x.Forall {
			kw = "forall"
		}
		var vs []string
		for _, b := range x.Vars {
			vs = append(vs, b.Name+": "+b.Type)
		}
		return "(" + kw + " " + strings.Join(vs, ", ") + " :: " + exprString(x.Body) + ")"
	}
	return "?"
}

package main

import (
	"fmt"
	"go/types"
	"sort"
	"strings"
)

// Term is an SMT-LIB term together with its sort (both as text).
type Term struct {
	S    string
	Sort string
}

func (t Term) String() string { return t.S }

const (
	sInt   = "Int"
	sBool  = "Bool"
	sStr   = "Str"
	sSlice = "Slice"
	sIface = "Iface"
	sReal  = "Real"
)

func q(name string) string {
	if strings.ContainsAny(name, "|\\") {
		name = strings.NewReplacer("|", "!", "\\", "!").Replace(name)
	}
	return "|" + name + "|"
}

func app(op string, args ...Term) string {
	var sb strings.Builder
	sb.WriteString("(")
	sb.WriteString(op)
	for _, a := range args {
		sb.WriteString(" ")
		sb.WriteString(a.S)
	}
	sb.WriteString(")")
	return sb.String()
}

func tInt(n int64) Term {
	if n < 0 {
		return Term{fmt.Sprintf("(- %d)", -n), sInt}
	}
	return Term{fmt.Sprintf("%d", n), sInt}
}
func tIntS(s string) Term {
	if strings.HasPrefix(s, "-") {
		return Term{"(- " + s[1:] + ")", sInt}
	}
	return Term{s, sInt}
}

var tTrue = Term{"true", sBool}
var tFalse = Term{"false", sBool}

func tBool(b bool) Term {
	if b {
		return tTrue
	}
	return tFalse
}

func tNot(a Term) Term {
	if a.S == "true" {
		return tFalse
	}
	if a.S == "false" {
		return tTrue
	}
	return Term{app("not", a), sBool}
}
func tAnd(as ...Term) Term {
	var xs []Term
	for _, a := range as {
		if a.S == "true" {
			continue
		}
		if a.S == "false" {
			return tFalse
		}
		xs = append(xs, a)
	}
	if len(xs) == 0 {
		return tTrue
	}
	if len(xs) == 1 {
		return xs[0]
	}
	return Term{app("and", xs...), sBool}
}
func tOr(as ...Term) Term {
	var xs []Term
	for _, a := range as {
		if a.S == "false" {
			continue
		}
		if a.S == "true" {
			return tTrue
		}
		xs = append(xs, a)
	}
	if len(xs) == 0 {
		return tFalse
	}
	if len(xs) == 1 {
		return xs[0]
	}
	return Term{app("or", xs...), sBool}
}
func tImp(a, b Term) Term {
	if a.S == "true" {
		return b
	}
	if a.S == "false" || b.S == "true" {
		return tTrue
	}
	return Term{app("=>", a, b), sBool}
}
func tEq(a, b Term) Term {
	if a.S == b.S {
		return tTrue
	}
	return Term{app("=", a, b), sBool}
}
func tIte(c, a, b Term) Term {
	if c.S == "true" {
		return a
	}
	if c.S == "false" {
		return b
	}
	if a.S == b.S {
		return a
	}
	return Term{app("ite", c, a, b), a.Sort}
}
func tSel(arr, idx Term) Term {
	return Term{app("select", arr, idx), arrElemSort(arr.Sort)}
}
func tStore(arr, idx, v Term) Term {
	return Term{app("store", arr, idx, v), arr.Sort}
}
func tArith(op string, a, b Term) Term { return Term{app(op, a, b), a.Sort} }
func tCmp(op string, a, b Term) Term   { return Term{app(op, a, b), sBool} }

func arrSort(idx, el string) string { return "(Array " + idx + " " + el + ")" }

// arrElemSort returns the element sort of "(Array I E)".
func arrElemSort(s string) string {
	if !strings.HasPrefix(s, "(Array ") {
		panic("not an array sort: " + s)
	}
	body := s[len("(Array ") : len(s)-1]
	// split at top-level space after first sort
	depth := 0
	inq := false
	for i, c := range body {
		switch {
		case c == '|':
			inq = !inq
		case inq:
		case c == '(':
			depth++
		case c == ')':
			depth--
		case c == ' ' && depth == 0:
			return body[i+1:]
		}
	}
	panic("bad array sort " + s)
}
func arrIdxSort(s string) string {
	body := s[len("(Array ") : len(s)-1]
	depth := 0
	inq := false
	for i, c := range body {
		switch {
		case c == '|':
			inq = !inq
		case inq:
		case c == '(':
			depth++
		case c == ')':
			depth--
		case c == ' ' && depth == 0:
			return body[:i]
		}
	}
	panic("bad array sort " + s)
}

// Slice helpers
func slArr(s Term) Term { return Term{app("s_arr", s), sInt} }
func slOff(s Term) Term { return Term{app("s_off", s), sInt} }
func slLen(s Term) Term { return Term{app("s_len", s), sInt} }
func slCap(s Term) Term { return Term{app("s_cap", s), sInt} }
func mkSlice(arr, off, ln, cp Term) Term {
	return Term{app("mkSlice", arr, off, ln, cp), sSlice}
}

var nilSlice = Term{"(mkSlice 0 0 0 0)", sSlice}
var nilIface = Term{"(mkIface 0 0)", sIface}

func ifTyp(i Term) Term { return Term{app("i_typ", i), sInt} }
func ifVal(i Term) Term { return Term{app("i_val", i), sInt} }
func mkIface(t, v Term) Term {
	return Term{app("mkIface", t, v), sIface}
}

// ---------------------------------------------------------------------
// Sorts for Go types

// Sorts keeps the lazily built datatype declarations for one query script.
type Sorts struct {
	emit     func(string) // appends a declaration line
	declared map[string]bool
	typeIDs  map[string]int
	structs  map[string]*types.Struct // sort name -> struct
	structT  map[string]types.Type
}

func newSorts(emit func(string)) *Sorts {
	return &Sorts{emit: emit, declared: map[string]bool{}, typeIDs: map[string]int{}, structs: map[string]*types.Struct{}, structT: map[string]types.Type{}}
}

// curSubst maps type parameters to type arguments while a generic body is examined for one instantiation
// (the encoder is single-threaded while encoding).
var curSubst map[string]types.Type

func substType(t types.Type) types.Type {
	if len(curSubst) == 0 || t == nil {
		return t
	}
	switch u := types.Unalias(t).(type) {
	case *types.TypeParam:
		if r, ok := curSubst[u.Obj().Name()]; ok {
			return r
		}
	case *types.Pointer:
		return types.NewPointer(substType(u.Elem()))
	case *types.Slice:
		return types.NewSlice(substType(u.Elem()))
	case *types.Array:
		return types.NewArray(substType(u.Elem()), u.Len())
	case *types.Map:
		return types.NewMap(substType(u.Key()), substType(u.Elem()))
	case *types.Chan:
		return types.NewChan(u.Dir(), substType(u.Elem()))
	case *types.Named:
		if ta := u.TypeArgs(); ta != nil && ta.Len() > 0 {
			args := make([]types.Type, ta.Len())
			changed := false
			for i := range args {
				args[i] = substType(ta.At(i))
				if args[i] != ta.At(i) {
					changed = true
				}
			}
			if changed {
				if inst, err := types.Instantiate(nil, u.Origin(), args, false); err == nil {
					return inst
				}
			}
		}
	}
	return t
}

func typeKey(t types.Type) string {
	return types.TypeString(substType(t), func(p *types.Package) string { return p.Name() })
}

func isTimeTime(t types.Type) bool {
	n, ok := types.Unalias(t).(*types.Named)
	return ok && n.Obj().Pkg() != nil && n.Obj().Pkg().Path() == "time" && n.Obj().Name() == "Time"
}

// structOf returns the struct underlying t (not through pointers), or nil.
func structOf(t types.Type) *types.Struct {
	t = substType(t)
	if isTimeTime(t) {
		return nil
	}
	s, _ := t.Underlying().(*types.Struct)
	return s
}

func (ss *Sorts) structSortName(t types.Type) string {
	t = types.Unalias(t)
	if n, ok := t.(*types.Named); ok {
		return "S." + typeKey(n)
	}
	return "S.anon." + typeKey(t)
}

// sortOf maps a Go type to an SMT sort, declaring datatypes on demand.
func (ss *Sorts) sortOf(t types.Type) string {
	t = types.Unalias(substType(t))
	if isTimeTime(t) {
		return sInt
	}
	switch u := t.(type) {
	case *types.TypeParam:
		name := q("TP." + u.Obj().Name())
		if !ss.declared[name] {
			ss.declared[name] = true
			ss.emit("(declare-sort " + name + " 0)")
			ss.emit("(declare-const " + q("zero.TP."+u.Obj().Name()) + " " + name + ")")
		}
		return name
	}
	switch u := t.Underlying().(type) {
	case *types.Basic:
		switch {
		case u.Info()&types.IsBoolean != 0:
			return sBool
		case u.Info()&types.IsInteger != 0:
			return sInt
		case u.Info()&types.IsFloat != 0:
			return sReal
		case u.Info()&types.IsString != 0:
			return sStr
		case u.Kind() == types.UnsafePointer:
			return sInt
		case u.Kind() == types.UntypedNil:
			return sInt
		case u.Info()&types.IsComplex != 0:
			return sReal
		}
		return sInt
	case *types.Pointer, *types.Map, *types.Chan, *types.Signature:
		return sInt
	case *types.Slice:
		return sSlice
	case *types.Interface:
		return sIface
	case *types.Array:
		return arrSort(sInt, ss.sortOf(u.Elem()))
	case *types.Struct:
		name := ss.structSortName(t)
		qn := q(name)
		if !ss.declared[qn] {
			ss.declared[qn] = true
			ss.structs[qn] = u
			ss.structT[qn] = t
			// declare field sorts first
			var fs []string
			for i := 0; i < u.NumFields(); i++ {
				fs = append(fs, fmt.Sprintf("(%s %s)", q(fmt.Sprintf("%s.%d.%s", name, i, u.Field(i).Name())), ss.sortOf(u.Field(i).Type())))
			}
			if len(fs) == 0 {
				ss.emit(fmt.Sprintf("(declare-datatypes ((%s 0)) (((%s))))", qn, q("mk."+name)))
			} else {
				ss.emit(fmt.Sprintf("(declare-datatypes ((%s 0)) (((%s %s))))", qn, q("mk."+name), strings.Join(fs, " ")))
			}
		}
		return qn
	case *types.Tuple:
		return "TUPLE"
	}
	panic(fmt.Sprintf("sortOf: unsupported type %v (%T)", t, t))
}

// field accessor for struct sort
func (ss *Sorts) fieldSel(t types.Type, i int, v Term) Term {
	t = substType(t)
	st := structOf(t)
	srt := ss.sortOf(t)
	name := strings.Trim(srt, "|")
	return Term{"(" + q(fmt.Sprintf("%s.%d.%s", name, i, st.Field(i).Name())) + " " + v.S + ")", ss.sortOf(st.Field(i).Type())}
}

func (ss *Sorts) mkStruct(t types.Type, fields []Term) Term {
	srt := ss.sortOf(t)
	name := strings.Trim(srt, "|")
	if len(fields) == 0 {
		return Term{q("mk." + name), srt}
	}
	return Term{app(q("mk."+name), fields...), srt}
}

func (ss *Sorts) fieldUpd(t types.Type, i int, v Term, nv Term) Term {
	st := structOf(t)
	fs := make([]Term, st.NumFields())
	for j := range fs {
		if j == i {
			fs[j] = nv
		} else {
			fs[j] = ss.fieldSel(t, j, v)
		}
	}
	return ss.mkStruct(t, fs)
}

func (ss *Sorts) zero(t types.Type) Term {
	t = types.Unalias(substType(t))
	if isTimeTime(t) {
		return tInt(0)
	}
	if tp, ok := t.(*types.TypeParam); ok {
		s := ss.sortOf(t)
		return Term{q("zero.TP." + tp.Obj().Name()), s}
	}
	switch u := t.Underlying().(type) {
	case *types.Struct:
		fs := make([]Term, u.NumFields())
		for i := range fs {
			fs[i] = ss.zero(u.Field(i).Type())
		}
		return ss.mkStruct(t, fs)
	case *types.Array:
		el := ss.zero(u.Elem())
		s := ss.sortOf(t)
		return Term{"((as const " + s + ") " + el.S + ")", s}
	}
	return zeroOfSort(ss.sortOf(t))
}

func zeroOfSort(s string) Term {
	switch s {
	case sInt:
		return tInt(0)
	case sBool:
		return tFalse
	case sStr:
		return Term{"str.empty", sStr}
	case sSlice:
		return nilSlice
	case sIface:
		return nilIface
	case sReal:
		return Term{"0.0", sReal}
	}
	panic("zeroOfSort " + s)
}

func (ss *Sorts) typeID(t types.Type) Term {
	k := typeKey(t)
	id, ok := ss.typeIDs[k]
	if !ok {
		// stable id: hash of the key (avoid dependence on encounter order)
		h := 7
		for _, c := range k {
			h = (h*31 + int(c)) % 1000003
		}
		id = h + 1
		ss.typeIDs[k] = id
	}
	return tInt(int64(id))
}

const preamble = `(declare-sort Str 0)
(declare-const str.empty Str)
(declare-fun strlen (Str) Int)
(declare-fun strord (Str) Real)
(declare-fun ordstr (Real) Str)
(assert (forall ((s Str)) (! (and (>= (strlen s) 0) (= (= (strlen s) 0) (= s str.empty))) :pattern ((strlen s)))))
(assert (forall ((s Str)) (! (and (= (ordstr (strord s)) s) (>= (strord s) 0.0) (= (= (strord s) 0.0) (= s str.empty))) :pattern ((strord s)))))
(declare-datatypes ((Slice 0)) (((mkSlice (s_arr Int) (s_off Int) (s_len Int) (s_cap Int)))))
(declare-datatypes ((Iface 0)) (((mkIface (i_typ Int) (i_val Int)))))
(declare-fun strcat (Str Str) Str)
(declare-fun substr (Str Int Int) Str)
(declare-fun errIs (Iface Iface) Bool)
(assert (forall ((e Iface)) (! (= (errIs e e) (not (= e (mkIface 0 0)))) :pattern ((errIs e e)))))
(assert (forall ((e Iface)) (! (not (errIs (mkIface 0 0) e)) :pattern ((errIs (mkIface 0 0) e)))))
`

func sortedKeys[V any](m map[string]V) []string {
	ks := make([]string, 0, len(m))
	for k := range m {
		ks = append(ks, k)
	}
	sort.Strings(ks)
	return ks
}

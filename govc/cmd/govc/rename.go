package main

// Rename-tolerant binding of local names.
//
// Contracts live in a separate file and name local variables of the function (work list, maps, loop variables).  Renaming
// a local is a harmless edit, but it would unbind every clause that mentions the variable and every anchor text that
// contains it - a false alarm.  When the lock is written, the list of named locals of every function under contract is
// recorded in /verif/locals.lock (source order, name and type).  At check time the current list is compared with it:
// if both have the same length and the same types position by position, a position whose name changed is a rename, and
// the contract's name is mapped to the new one (in expressions and in anchor texts).  Any other difference (a variable
// added, removed, retyped, reordered) maps nothing: the contract then binds by name as before and fails if it must.

import (
	"encoding/json"
	"fmt"
	"os"
	"path/filepath"
	"regexp"
	"sort"
	"strings"

	"golang.org/x/tools/go/ssa"
)

type localSig struct{ Name, Type string }

func localsOf(fn *ssa.Function) []localSig {
	type la struct {
		a *ssa.Alloc
	}
	var as []*ssa.Alloc
	for _, b := range fn.Blocks {
		for _, ins := range b.Instrs {
			if a, ok := ins.(*ssa.Alloc); ok && a.Comment != "" && a.Pos().IsValid() {
				switch a.Comment {
				case "complit", "varargs", "rangeindex", "slicelit", "new", "makeslice", "makemap":
					continue
				}
				if strings.ContainsAny(a.Comment, " .()") {
					continue
				}
				as = append(as, a)
			}
		}
	}
	sort.SliceStable(as, func(i, j int) bool { return as[i].Pos() < as[j].Pos() })
	var out []localSig
	for _, a := range as {
		out = append(out, localSig{a.Comment, a.Type().String()})
	}
	return out
}

func localsLockPath() string { return filepath.Join(verifRoot(), "locals.lock") }

func readLocalsLock() map[string][]localSig {
	m := map[string][]localSig{}
	if b, err := os.ReadFile(localsLockPath()); err == nil {
		_ = json.Unmarshal(b, &m)
	}
	return m
}

// writeLocalsLock records the named locals of every function under contract (called by `govc lock`).
func (c *Ctx) writeLocalsLock() {
	m := readLocalsLock()
	for k, fn := range c.funcs {
		if c.contractFor(fn) != nil {
			m[k] = localsOf(fn)
		}
	}
	b, _ := json.MarshalIndent(m, "", " ")
	_ = os.WriteFile(localsLockPath(), b, 0o644)
}

var localsLockCache map[string][]localSig

func (c *Ctx) renamedLocals(key string, fn *ssa.Function) map[string]string {
	if localsLockCache == nil {
		localsLockCache = readLocalsLock()
	}
	old, ok := localsLockCache[key]
	if !ok {
		return nil
	}
	cur := localsOf(fn)
	if len(old) != len(cur) {
		return nil
	}
	for i := range old {
		if old[i].Type != cur[i].Type {
			return nil
		}
	}
	// position by position: the k-th declaration of a name in the recorded list against what stands there now
	ren := map[string]string{}
	oldOcc, curOcc := map[string]int{}, map[string]int{}
	total := map[string]int{}
	for i := range old {
		total[old[i].Name]++
	}
	renamedAll := map[string]map[string]int{} // old name -> new names -> count
	for i := range old {
		oldOcc[old[i].Name]++
		curOcc[cur[i].Name]++
		if old[i].Name == cur[i].Name && oldOcc[old[i].Name] == curOcc[cur[i].Name] {
			continue
		}
		// name#k of the contract now is cur-name#k'
		ren[fmt.Sprintf("%s#%d", old[i].Name, oldOcc[old[i].Name])] = fmt.Sprintf("%s#%d", cur[i].Name, curOcc[cur[i].Name])
		if old[i].Name != cur[i].Name {
			if renamedAll[old[i].Name] == nil {
				renamedAll[old[i].Name] = map[string]int{}
			}
			renamedAll[old[i].Name][cur[i].Name]++
		}
	}
	// a name all of whose declarations were renamed to one new name is renamed as a whole (unsuffixed uses, anchor texts)
	for o, m := range renamedAll {
		if len(m) == 1 {
			for n, cnt := range m {
				if cnt == total[o] {
					ren[o] = n
				}
			}
		}
	}
	if len(ren) == 0 {
		return nil
	}
	return ren
}

// renameName maps a contract name (possibly with a #k suffix) to the current name of the variable.
func (fe *FnEnc) renameName(name string) string {
	if fe.rename == nil {
		return name
	}
	if strings.Contains(name, "#") {
		if n, ok := fe.rename[name]; ok {
			return n
		}
		base, suffix, _ := strings.Cut(name, "#")
		if n, ok := fe.rename[base]; ok {
			return n + "#" + suffix
		}
		return name
	}
	if n, ok := fe.rename[name]; ok {
		return n
	}
	// an unsuffixed name denotes the first declaration
	if n, ok := fe.rename[name+"#1"]; ok {
		return n
	}
	return name
}

// renameText maps identifiers inside an anchor text.
func (fe *FnEnc) renameText(text string) string {
	if fe.rename == nil {
		return text
	}
	for old, nw := range fe.rename {
		if strings.Contains(old, "#") {
			continue
		}
		text = regexp.MustCompile(`\b`+regexp.QuoteMeta(old)+`\b`).ReplaceAllString(text, nw)
	}
	return text
}

// anchorVariants: the anchor text as written, and with each recorded rename applied (a loop variable renamed in one of
// several loops that use the same name leaves the other loops' calls as they were: every variant is tried)
func (fe *FnEnc) anchorVariants(text string) []string {
	out := []string{text}
	if fe.rename == nil {
		return out
	}
	seen := map[string]bool{text: true}
	for old, nw := range fe.rename {
		o, _, _ := strings.Cut(old, "#")
		n, _, _ := strings.Cut(nw, "#")
		if o == n {
			continue
		}
		v := regexp.MustCompile(`\b`+regexp.QuoteMeta(o)+`\b`).ReplaceAllString(text, n)
		if !seen[v] {
			seen[v] = true
			out = append(out, v)
		}
	}
	return out
}

package main

import (
	"fmt"
	"os"
	"os/exec"
	"path/filepath"
	"regexp"
	"strings"
)

var reDiffFile = regexp.MustCompile(`(?m)^\+\+\+ b/(\S+)`)

// overlayFromPatch applies a unified diff to copies of the touched files (outside the repository)
// and returns an overlay for the loader; the repository itself is not modified.
func overlayFromPatch(repo, patchFile string) (map[string][]byte, error) {
	pb, err := os.ReadFile(patchFile)
	if err != nil {
		return nil, err
	}
	tmp, err := os.MkdirTemp("", "govc-mut-")
	if err != nil {
		return nil, err
	}
	defer os.RemoveAll(tmp)
	var files []string
	for _, m := range reDiffFile.FindAllStringSubmatch(string(pb), -1) {
		files = append(files, m[1])
	}
	if len(files) == 0 {
		return nil, fmt.Errorf("no files in patch %s", patchFile)
	}
	for _, f := range files {
		src, err := os.ReadFile(filepath.Join(repo, f))
		if err != nil {
			return nil, err
		}
		dst := filepath.Join(tmp, f)
		_ = os.MkdirAll(filepath.Dir(dst), 0o755)
		if err := os.WriteFile(dst, src, 0o644); err != nil {
			return nil, err
		}
	}
	cmd := exec.Command("patch", "-p1", "-s", "-d", tmp)
	cmd.Stdin = strings.NewReader(string(pb))
	if out, err := cmd.CombinedOutput(); err != nil {
		return nil, fmt.Errorf("patch failed: %v: %s", err, out)
	}
	ov := map[string][]byte{}
	for _, f := range files {
		b, err := os.ReadFile(filepath.Join(tmp, f))
		if err != nil {
			return nil, err
		}
		ov[filepath.Join(repo, f)] = b
	}
	return ov, nil
}

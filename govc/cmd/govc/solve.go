package main

import (
	"bytes"
	"context"
	"fmt"
	"os"
	"os/exec"
	"path/filepath"
	"strings"
	"sync"
	"time"
)

type Result struct {
	Obl            *Obl
	Status         string // unsat sat unknown timeout error
	Solver         string
	Secs           float64
	File           string
	Output         string
	Size           int
	OK             bool // obligation discharged (or cover not refuted)
	Tried          []string
	Part           int
	reCode, reSpec string // regexp obligations: the two expressions compared
}

func (fe *FnEnc) query(o *Obl, withModel bool) string { return fe.queryPart(o, -1, withModel) }

func (fe *FnEnc) queryPart(o *Obl, part int, withModel bool) string {
	var sb strings.Builder
	sb.WriteString("; obligation " + o.ID + "\n")
	sb.WriteString(preamble)
	for _, l := range fe.lines[:o.Prefix] {
		sb.WriteString(l)
		sb.WriteString("\n")
	}
	for _, l := range fe.litFacts(o.NLits) {
		sb.WriteString(l)
		sb.WriteString("\n")
	}
	for _, l := range fe.flagSettings(o) {
		sb.WriteString(l)
		sb.WriteString("\n")
	}
	if o.Cover {
		sb.WriteString("(assert " + o.PC.S + ")\n")
	} else {
		g := o.Goal
		if part >= 0 {
			g = o.Parts[part]
		}
		sb.WriteString("(assert " + tAnd(o.PC, tNot(g)).S + ")\n")
	}
	sb.WriteString("(check-sat)\n")
	if withModel {
		sb.WriteString("(get-model)\n")
	}
	return sb.String()
}

type solverSpec struct {
	name string
	args func(file string, timeout int, seed int) []string
}

var solvers = map[string]solverSpec{
	"z3-new": {"z3-new", func(f string, t, seed int) []string {
		return []string{fmt.Sprintf("-T:%d", t), fmt.Sprintf("smt.random_seed=%d", seed), fmt.Sprintf("sat.random_seed=%d", seed), f}
	}},
	"z3": {"z3", func(f string, t, seed int) []string {
		return []string{fmt.Sprintf("-T:%d", t), fmt.Sprintf("smt.random_seed=%d", seed), f}
	}},
	// pure E-matching (the configuration program verifiers use): decides most quantified goals at once
	"z3-new/ematch": {"z3-new", func(f string, t, seed int) []string {
		return []string{fmt.Sprintf("-T:%d", t), "smt.auto_config=false", "smt.mbqi=false", fmt.Sprintf("smt.random_seed=%d", seed), f}
	}},
	"z3/ematch": {"z3", func(f string, t, seed int) []string {
		return []string{fmt.Sprintf("-T:%d", t), "smt.auto_config=false", "smt.mbqi=false", fmt.Sprintf("smt.random_seed=%d", seed), f}
	}},
	"cvc5": {"cvc5", func(f string, t, seed int) []string {
		return []string{fmt.Sprintf("--tlimit=%d", t*1000), fmt.Sprintf("--seed=%d", seed), f}
	}},
}

func runSolver(name, file string, timeout, seed int) (string, string, float64) {
	return runSolverCtx(context.Background(), name, file, timeout, seed)
}

func runSolverCtx(parent context.Context, name, file string, timeout, seed int) (string, string, float64) {
	sp := solvers[name]
	ctx, cancel := context.WithTimeout(parent, time.Duration(timeout+5)*time.Second)
	defer cancel()
	cmd := exec.CommandContext(ctx, sp.name, sp.args(file, timeout, seed)...)
	var out bytes.Buffer
	cmd.Stdout = &out
	cmd.Stderr = &out
	t0 := time.Now()
	_ = cmd.Run()
	secs := time.Since(t0).Seconds()
	text := out.String()
	first := strings.TrimSpace(strings.SplitN(text, "\n", 2)[0])
	switch first {
	case "unsat", "sat", "unknown", "timeout":
		return first, text, secs
	}
	if ctx.Err() != nil {
		return "timeout", text, secs
	}
	if strings.Contains(text, "timeout") {
		return "timeout", text, secs
	}
	return "error", text, secs
}

func cvc5File(file string) string {
	b, _ := os.ReadFile(file)
	f2 := strings.TrimSuffix(file, ".smt2") + ".cvc5.smt2"
	_ = os.WriteFile(f2, append([]byte("(set-logic ALL)\n"), b...), 0o644)
	return f2
}

// solve discharges one obligation: z3-new first, then z3 4.8.12 and cvc5.
func solveOne(fe *FnEnc, o *Obl, dir string, timeout, seed int, escalate bool) Result {
	if len(o.Parts) > 1 {
		// every conjunct is its own query; the obligation is discharged when all are
		var agg Result
		agg.Obl = o
		agg.OK = true
		for i := range o.Parts {
			r := solvePart(fe, o, i, dir, timeout, seed, escalate)
			agg.Secs += r.Secs
			agg.Size += r.Size
			agg.Tried = append(agg.Tried, r.Tried...)
			if agg.Solver == "" {
				agg.Solver = r.Solver
			}
			if !r.OK {
				agg.OK = false
				agg.Status, agg.Solver, agg.Output, agg.File, agg.Part = r.Status, r.Solver, r.Output, r.File, i
				if r.Status == "sat" {
					break
				}
			}
		}
		if agg.OK {
			agg.Status = "unsat"
		}
		return agg
	}
	return solvePart(fe, o, -1, dir, timeout, seed, escalate)
}

func solvePart(fe *FnEnc, o *Obl, part int, dir string, timeout, seed int, escalate bool) Result {
	qtext := fe.queryPart(o, part, false)
	name := sanitizeFile(o.ID)
	if part >= 0 {
		name += fmt.Sprintf(".part%d", part)
	}
	file := filepath.Join(dir, name+".smt2")
	_ = os.WriteFile(file, []byte(qtext), 0o644)
	res := Result{Obl: o, File: file, Size: len(qtext), Part: part}
	want := "unsat"
	try := func(s string) bool {
		f := file
		if s == "cvc5" {
			f = cvc5File(file)
		}
		st, out, secs := runSolver(s, f, timeout, seed)
		if st == "unknown" && strings.Contains(s, "ematch") {
			st = "unknown" // incomplete instantiation: not an answer
		}
		res.Tried = append(res.Tried, fmt.Sprintf("%s:%s:%.1fs", s, st, secs))
		res.Secs += secs
		if res.Status == "" || st == "unsat" || st == "sat" {
			res.Status, res.Solver, res.Output = st, s, out
		}
		if o.Cover {
			return st == "sat" || st == "unsat"
		}
		return st == want || st == "sat"
	}
	// staged: a short z3-new attempt decides most goals; z3 4.8.12 proves several quantified goals
	// z3-new gives up on (and vice versa); cvc5 last
	full := timeout
	timeout = max(2, full/2)
	// first stage: both z3 versions in E-matching mode race (each proves quantified goals the other gives up on);
	// the first definite answer wins
	done := func() bool {
		type ans struct {
			s, st, out string
			secs       float64
		}
		ch := make(chan ans, 3)
		// z3 4.8.12 in its default configuration decides some quantified goals in under a second that neither E-matching
		// run finishes (types.Index.AddDesc#loop4.inv:other-subjects-kept.preserve#2)
		racers := []string{"z3-new/ematch", "z3/ematch", "z3"}
		t1 := full
		rctx, rcancel := context.WithCancel(context.Background())
		defer rcancel()
		for _, s := range racers {
			go func(s string) {
				st, out, secs := runSolverCtx(rctx, s, file, t1, seed)
				ch <- ans{s, st, out, secs}
			}(s)
		}
		decided := false
		for range racers {
			a := <-ch
			res.Tried = append(res.Tried, fmt.Sprintf("%s:%s:%.1fs", a.s, a.st, a.secs))
			if decided {
				continue
			}
			if a.secs > res.Secs {
				res.Secs = a.secs
			}
			if res.Status == "" || a.st == "unsat" || a.st == "sat" {
				res.Status, res.Solver, res.Output = a.st, a.s, a.out
			}
			if o.Cover {
				decided = a.st == "sat" || a.st == "unsat"
			} else {
				decided = a.st == want || a.st == "sat"
			}
			if decided {
				// do not wait for the slower one
				rcancel()
				break
			}
		}
		return decided
	}()
	if !done {
		timeout = max(2, full/2)
		done = try("z3-new")
	}
	if !done && escalate {
		if !try("z3") {
			if !try("z3-new") {
				try("cvc5")
			}
		}
	}
	if o.Cover {
		res.OK = res.Status != "unsat"
	} else {
		res.OK = res.Status == "unsat"
	}
	return res
}

func sanitizeFile(s string) string {
	var sb strings.Builder
	for _, c := range s {
		if (c >= 'a' && c <= 'z') || (c >= 'A' && c <= 'Z') || (c >= '0' && c <= '9') || c == '.' || c == '-' || c == '_' {
			sb.WriteRune(c)
		} else {
			sb.WriteRune('_')
		}
	}
	s = sb.String()
	if len(s) > 150 {
		s = s[:150]
	}
	return s
}

type job struct {
	fe *FnEnc
	o  *Obl
}

func solveAll(jobs []job, dir string, timeout, seed int, escalate bool, par int) []Result {
	results := make([]Result, len(jobs))
	var wg sync.WaitGroup
	ch := make(chan int)
	for w := 0; w < par; w++ {
		wg.Add(1)
		go func() {
			defer wg.Done()
			for i := range ch {
				results[i] = solveOne(jobs[i].fe, jobs[i].o, dir, timeout, seed, escalate)
			}
		}()
	}
	for i := range jobs {
		ch <- i
	}
	close(ch)
	wg.Wait()
	return results
}

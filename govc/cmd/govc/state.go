package main

import (
	"fmt"
	"go/types"
	"strings"

	"golang.org/x/tools/go/ssa"
)

// ---------------------------------------------------------------------
// addresses known at translation time

const (
	aLocal = iota
	aStruct
	aField
	aElem
	aCell
	aGlobal
)

type pathEl struct {
	field int        // field index, or -1 for array index
	idx   *Term      // array index
	T     types.Type // type of the container this step projects from
}

type Addr struct {
	kind  int
	alloc *ssa.Alloc
	glob  *ssa.Global
	base  Term
	pos   Term
	T     types.Type
	fld   int
	path  []pathEl
	sl    *Term // aElem reached through a slice: the slice and the index
	idx   *Term
}

// RV is the translation-time value of an SSA register.
type RV struct {
	T      Term
	A      *Addr
	Tuple  []RV
	Clos   *ClosInfo
	Iter   *IterInfo
	Typ    types.Type
	Valid  bool
	ArrObj bool // T is the row (in the element heap) of a heap-allocated array object
}

type ClosInfo struct {
	Fn       *ssa.Function
	Bindings []RV
}

type IterInfo struct {
	rng  *ssa.Range
	m    Term
	mapT *types.Map
	str  bool
}

// ---------------------------------------------------------------------
// symbolic state

type State struct {
	pc    Term
	cells map[*ssa.Alloc]Term
	ghost map[ssa.Value]Term // per-instruction ghost cells (range visited sets, defer flags)
	heap  map[string]Term
	epoch int
	dead  bool
}

func (s *State) clone() *State {
	n := &State{pc: s.pc, cells: make(map[*ssa.Alloc]Term, len(s.cells)), ghost: make(map[ssa.Value]Term, len(s.ghost)), heap: make(map[string]Term, len(s.heap)), epoch: s.epoch, dead: s.dead}
	for k, v := range s.cells {
		n.cells[k] = v
	}
	for k, v := range s.ghost {
		n.ghost[k] = v
	}
	for k, v := range s.heap {
		n.heap[k] = v
	}
	return n
}

// WriteSet records what a loop body or function may modify (component granularity).
type WriteSet struct {
	cells map[*ssa.Alloc]bool
	ghost map[ssa.Value]bool
	comps map[string]string // name -> sort
	types map[string]types.Type
	// structT: struct sorts known to the encoder that computed the write set (sort name -> Go type);
	// declared in the caller before the havoc, since a component's sort may mention them
	structT map[string]types.Type
	all     bool
}

func newWriteSet() *WriteSet {
	return &WriteSet{cells: map[*ssa.Alloc]bool{}, ghost: map[ssa.Value]bool{}, comps: map[string]string{}, types: map[string]types.Type{}, structT: map[string]types.Type{}}
}

func (w *WriteSet) addAll(o *WriteSet) {
	for k, v := range o.comps {
		w.comps[k] = v
	}
	for k, v := range o.types {
		w.types[k] = v
	}
	for k, v := range o.structT {
		w.structT[k] = v
	}
	if o.all {
		w.all = true
	}
}

// ---------------------------------------------------------------------
// component naming

func compField(st types.Type, i int) string {
	s := structOf(st)
	return fmt.Sprintf("H.%s.%d.%s", typeKey(types.Unalias(st)), i, s.Field(i).Name())
}

func stripQ(s string) string { return strings.Trim(s, "|") }

func compElems(elSort string) string { return "E." + stripQ(elSort) }
func compCell(elSort string) string  { return "C." + stripQ(elSort) }
func compMapDom(k, v string) string  { return "MD." + stripQ(k) + "." + stripQ(v) }
func compMapVal(k, v string) string  { return "MV." + stripQ(k) + "." + stripQ(v) }
func compMapCard(k, v string) string { return "MC." + stripQ(k) + "." + stripQ(v) }

package main

import (
	"fmt"
	"go/ast"
	"go/constant"
	"go/printer"
	"go/token"
	"go/types"
	"hash/fnv"
	"sort"
	"strings"

	"golang.org/x/tools/go/ast/astutil"
	"golang.org/x/tools/go/ssa"
)

// Obl is one proof obligation.
type Obl struct {
	ID     string
	Fn     string
	Kind   string
	Props  []string
	Prefix int
	PC     Term
	Goal   Term
	Parts  []Term   // conjuncts of the goal, each decided by its own query
	Uses   []string // resolved assumption flags to keep (nil: all)
	NFlags int
	Cover  bool // expected sat
	NLits  int
	Pos    token.Pos
	Note   string
}

type Loop struct {
	header  *ssa.BasicBlock
	blocks  map[*ssa.BasicBlock]bool
	ord     int
	spec    *LoopSpec
	writes  *WriteSet
	variant *Term
	headSt  *State
	minPos  token.Pos
}

type epochParent struct {
	cond  Term
	epoch int
}

// FnEnc encodes one function.
type FnEnc struct {
	c           *Ctx
	fn          *ssa.Function
	key         string
	pkgPath     string
	contract    *FuncContract
	cf          *ContractFile
	lines       []string
	sorts       *Sorts
	declared    map[string]bool
	nfresh      int
	regs        map[ssa.Value]RV
	obls        []*Obl
	oblCount    map[string]int
	assertFired map[int]bool
	lastArgs    []RV              // arguments of the call being translated (arg0, arg1, ... in cut points)
	lastRets    []RV              // results of the call being translated (bound as ret, ret0, ret1 in `after` cut points)
	rename      map[string]string // local names of the contract that the code has since renamed (same position, same type): old -> new
	lits        map[string]string // const name -> literal
	loops       []*Loop
	loopOf      map[*ssa.BasicBlock]*Loop
	dry         bool
	fnWrites    *WriteSet
	curBlock    *ssa.BasicBlock
	entry       *State
	epochs      int
	epochPar    map[int][]epochParent
	compSort    map[string]string
	params      map[string]RV // entry values by contract/SSA name
	unsupp      []string
	havocs      map[string]bool // callees treated by havoc-all
	assumed     map[string]bool // assumed contracts / effect-table entries used
	sweep       bool            // generate safety obligations
	defers      []*ssa.Defer
	deferArgs   map[*ssa.Defer][]RV
	retVals     []RV
	callOrd     map[string]int
	file        *ast.File
	implicitInv []Clause
	cellClos    map[*ssa.Alloc]*ClosInfo
	curCallRecv ssa.Value
	curCallArgs []ssa.Value
	fvVals      map[*ssa.FreeVar]RV
	compT       map[string]types.Type
	qctx        string   // context name for quantifier ids
	flags       []string // assumption switches, in order of declaration
	litOrder    []string
}

func (c *Ctx) newFnEnc(fn *ssa.Function, dry bool) *FnEnc {
	fe := &FnEnc{c: c, fn: fn, key: c.keyOf(fn), dry: dry, declared: map[string]bool{}, regs: map[ssa.Value]RV{}, oblCount: map[string]int{},
		lits: map[string]string{}, loopOf: map[*ssa.BasicBlock]*Loop{}, fnWrites: newWriteSet(), epochPar: map[int][]epochParent{}, compSort: map[string]string{},
		params: map[string]RV{}, havocs: map[string]bool{}, assumed: map[string]bool{}, sweep: true, deferArgs: map[*ssa.Defer][]RV{}, callOrd: map[string]int{}, cellClos: map[*ssa.Alloc]*ClosInfo{}, fvVals: map[*ssa.FreeVar]RV{}, compT: map[string]types.Type{}}
	fe.sorts = newSorts(func(s string) { fe.lines = append(fe.lines, s) })
	if p := c.pkgOf(fn); p != nil {
		fe.pkgPath = p.Pkg.Path()
		fe.cf = c.contracts[fe.pkgPath]
	}
	fe.contract = c.contractFor(fn)
	if fe.contract != nil {
		fe.rename = c.renamedLocals(fe.pkgShort()+"::"+fe.key, fn)
	}
	return fe
}

func (fe *FnEnc) emit(s string) { fe.lines = append(fe.lines, s) }

func (fe *FnEnc) unsupported(format string, args ...any) {
	msg := fmt.Sprintf(format, args...)
	for _, u := range fe.unsupp {
		if u == msg {
			return
		}
	}
	fe.unsupp = append(fe.unsupp, msg)
}

func (fe *FnEnc) fresh(prefix, sort string) Term {
	fe.nfresh++
	name := q(fmt.Sprintf("%s!%d", prefix, fe.nfresh))
	fe.emit("(declare-const " + name + " " + sort + ")")
	return Term{name, sort}
}

// define names a term with a fresh constant (keeps later terms small).
func (fe *FnEnc) define(prefix string, t Term) Term {
	if len(t.S) < 40 {
		return t
	}
	c := fe.fresh(prefix, t.Sort)
	fe.emit("(assert (= " + c.S + " " + t.S + "))")
	return c
}

// assumeClause assumes a contract clause; a clause that is a conjunction of predicate calls gets one switch per
// conjunct (flag.predName) so that uses(...) lists can pick single conjuncts (uses(wf.wfW1)).
func (fe *FnEnc) assumeClause(st *State, flag string, ex Expr, env0 *Env) {
	e1 := *env0
	e1.pol = 1
	env := &e1
	parts := fe.topConjuncts(ex, env, 0)
	fe.qctx = flag
	if len(parts) <= 1 {
		fe.assumeFlagged(st, flag, fe.trBool(ex, env))
		return
	}
	seen := map[string]int{}
	for i, p := range parts {
		fe.qctx = flag
		name := fmt.Sprintf("%d", i)
		if c, ok := p.(ECall); ok {
			name = c.Fn
		}
		seen[name]++
		if seen[name] > 1 {
			name = fmt.Sprintf("%s%d", name, seen[name])
		}
		fe.assumeFlagged(st, flag+"."+name, fe.trBool(p, env))
	}
}

// topConjuncts splits A && B && pred(...) where pred itself is a conjunction (one level of expansion per step).
func (fe *FnEnc) topConjuncts(ex Expr, env *Env, depth int) []Expr {
	switch x := ex.(type) {
	case EBin:
		if x.Op == "&&" {
			return append(fe.topConjuncts(x.L, env, depth), fe.topConjuncts(x.R, env, depth)...)
		}
	case ECall:
		if p := fe.findPred(env, x.Fn); p != nil && len(p.Params) == len(x.Args) && depth < 2 {
			if b, ok := p.Body.(EBin); ok && b.Op == "&&" {
				m := map[string]Expr{}
				for i, pn := range p.Params {
					m[pn] = x.Args[i]
				}
				return fe.topConjuncts(substExpr(p.Body, m), env, depth+1)
			}
		}
	}
	return []Expr{ex}
}

// assumeFlagged asserts an assumption that individual obligations can switch off (uses(...) lists).
func (fe *FnEnc) assumeFlagged(st *State, flag string, f Term) {
	if f.S == "true" {
		return
	}
	n := q("use." + flag)
	if !fe.declared[n] {
		fe.declared[n] = true
		fe.emit("(declare-const " + n + " Bool)")
		fe.flags = append(fe.flags, flag)
	}
	fe.emit("(assert " + tImp(tAnd(st.pc, Term{n, sBool}), f).S + ")")
}

func (fe *FnEnc) assume(st *State, f Term) {
	if f.S == "true" {
		return
	}
	fe.emit("(assert " + tImp(st.pc, f).S + ")")
}

func (fe *FnEnc) declFun(name string, args []string, ret string) {
	if fe.declared[name] {
		return
	}
	fe.declared[name] = true
	fe.emit("(declare-fun " + name + " (" + strings.Join(args, " ") + ") " + ret + ")")
}

func (fe *FnEnc) declConst(name, sort string) {
	if fe.declared[name] {
		return
	}
	fe.declared[name] = true
	fe.emit("(declare-const " + name + " " + sort + ")")
}

// ---------------------------------------------------------------------
// literals

func (fe *FnEnc) strLit(s string) Term {
	if s == "" {
		return Term{"str.empty", sStr}
	}
	clean := true
	for _, c := range s {
		if !(c == '-' || c == '_' || c == '.' || c == '/' || c == ':' || c == '+' || c == ' ' || c == '=' || c == ',' || c == '*' || c == '%' ||
			(c >= '0' && c <= '9') || (c >= 'a' && c <= 'z') || (c >= 'A' && c <= 'Z')) {
			clean = false
		}
	}
	name := "str:" + s
	if !clean || len(s) > 60 {
		h := fnv.New32a()
		h.Write([]byte(s))
		var sb strings.Builder
		for _, c := range s {
			if (c >= '0' && c <= '9') || (c >= 'a' && c <= 'z') || (c >= 'A' && c <= 'Z') || c == '.' || c == '-' || c == '_' {
				sb.WriteRune(c)
			} else {
				sb.WriteRune('~')
			}
			if sb.Len() > 40 {
				break
			}
		}
		name = fmt.Sprintf("str:%s#%08x", sb.String(), h.Sum32())
	}
	qn := q(name)
	if _, ok := fe.lits[qn]; !ok {
		fe.lits[qn] = s
		fe.litOrder = append(fe.litOrder, qn)
		fe.emit("(declare-const " + qn + " Str)")
		fe.emit(fmt.Sprintf("(assert (= (strlen %s) %d))", qn, len(s)))
	}
	return Term{qn, sStr}
}

// litFacts returns the assertions relating all string literals known so far.
func (fe *FnEnc) litFacts(n int) []string {
	if n == 0 {
		return nil
	}
	names := append([]string{}, fe.litOrder[:n]...)
	sort.Slice(names, func(i, j int) bool { return fe.lits[names[i]] < fe.lits[names[j]] })
	var out []string
	// strict order chain gives distinctness and the lexical order
	prev := "str.empty"
	for _, n := range names {
		out = append(out, fmt.Sprintf("(assert (< (strord %s) (strord %s)))", prev, n))
		prev = n
	}
	return out
}

// ---------------------------------------------------------------------
// heap components

func (fe *FnEnc) compInit(name, sort string, epoch int) Term {
	cn := q(fmt.Sprintf("%s@e%d", name, epoch))
	t := Term{cn, sort}
	if fe.declared[cn] {
		return t
	}
	fe.declared[cn] = true
	fe.compSort[name] = sort
	fe.emit("(declare-const " + cn + " " + sort + ")")
	if name == "alloc" {
		fe.emit("(assert (>= " + cn + " 0))")
	}
	for _, p := range fe.epochPar[epoch] {
		pt := fe.compInit(name, sort, p.epoch)
		fe.emit("(assert " + tImp(p.cond, tEq(t, pt)).S + ")")
	}
	if name != "alloc" && len(fe.epochPar[epoch]) == 0 {
		fe.emitHeapWF(name, t, fe.compInit("alloc", sInt, epoch))
	}
	return t
}

// emitHeapWF: every reference stored in a heap component was allocated before (language invariant,
// assumed for initial and havocked versions of a component).
func (fe *FnEnc) emitHeapWF(name string, h Term, alloc Term) {
	if fe.dry {
		return
	}
	T, ok := fe.compT[name]
	if !ok {
		return
	}
	switch {
	case strings.HasPrefix(name, "E.") || strings.HasPrefix(name, "MV."):
		idx := arrIdxSort(arrElemSort(h.Sort))
		v := Term{"(select (select " + h.S + " r) p)", arrElemSort(arrElemSort(h.Sort))}
		f := fe.wf(T, v, alloc, 0)
		if f.S != "true" {
			fe.emit(fmt.Sprintf("(assert (forall ((r Int) (p %s)) (! %s :pattern (%s))))", idx, f.S, v.S))
		}
	case strings.HasPrefix(name, "H.") || strings.HasPrefix(name, "C.") || strings.HasPrefix(name, "box."):
		v := Term{"(select " + h.S + " r)", arrElemSort(h.Sort)}
		f := fe.wf(T, v, alloc, 0)
		if f.S != "true" {
			fe.emit(fmt.Sprintf("(assert (forall ((r Int)) (! %s :pattern (%s))))", f.S, v.S))
		}
	}
}

func (fe *FnEnc) getComp(st *State, name, sort string) Term {
	if t, ok := st.heap[name]; ok {
		return t
	}
	t := fe.compInit(name, sort, st.epoch)
	st.heap[name] = t
	return t
}

func (fe *FnEnc) oldComp(name, sort string) Term {
	return fe.compInit(name, sort, 0)
}

func (fe *FnEnc) recordCompWrite(name, sort string) {
	fe.fnWrites.comps[name] = sort
	if t, ok := fe.compT[name]; ok {
		fe.fnWrites.types[name] = t
		for _, l := range fe.loops {
			if fe.curBlock != nil && l.blocks[fe.curBlock] {
				l.writes.types[name] = t
			}
		}
	}
	for _, l := range fe.loops {
		if fe.curBlock != nil && l.blocks[fe.curBlock] {
			l.writes.comps[name] = sort
		}
	}
}

func (fe *FnEnc) setComp(st *State, name, sort string, v Term) {
	fe.compSort[name] = sort
	fe.recordCompWrite(name, sort)
	if fe.dry {
		return
	}
	fe.nfresh++
	cn := q(fmt.Sprintf("%s@%d", name, fe.nfresh))
	fe.emit("(declare-const " + cn + " " + sort + ")")
	fe.emit("(assert (= " + cn + " " + v.S + "))")
	st.heap[name] = Term{cn, sort}
}

func (fe *FnEnc) havocComp(st *State, name, sort string) {
	fe.compSort[name] = sort
	fe.recordCompWrite(name, sort)
	if fe.dry {
		return
	}
	var old Term
	if name == "alloc" {
		old = fe.getComp(st, name, sort)
	}
	fe.nfresh++
	cn := q(fmt.Sprintf("%s@h%d", name, fe.nfresh))
	fe.emit("(declare-const " + cn + " " + sort + ")")
	st.heap[name] = Term{cn, sort}
	if name == "alloc" {
		fe.emit("(assert (>= " + cn + " " + old.S + "))")
	} else {
		fe.emitHeapWF(name, Term{cn, sort}, fe.alloc(st))
	}
}

func (fe *FnEnc) havocAll(st *State) {
	fe.fnWrites.all = true
	for _, l := range fe.loops {
		if fe.curBlock != nil && l.blocks[fe.curBlock] {
			l.writes.all = true
		}
	}
	if fe.dry {
		return
	}
	old := fe.getComp(st, "alloc", sInt)
	fe.epochs++
	st.epoch = fe.epochs
	st.heap = map[string]Term{}
	na := fe.getComp(st, "alloc", sInt)
	fe.emit("(assert (>= " + na.S + " " + old.S + "))")
}

func (fe *FnEnc) alloc(st *State) Term { return fe.getComp(st, "alloc", sInt) }

func (fe *FnEnc) newRef(st *State) Term {
	a := fe.alloc(st)
	r := fe.define("ref", Term{"(+ " + a.S + " 1)", sInt})
	if r.S[0] == '(' {
		c := fe.fresh("ref", sInt)
		fe.emit("(assert (= " + c.S + " " + r.S + "))")
		r = c
	}
	fe.setComp(st, "alloc", sInt, r)
	return r
}

func (fe *FnEnc) setCell(st *State, a *ssa.Alloc, v Term) {
	fe.fnWrites.cells[a] = true
	for _, l := range fe.loops {
		if fe.curBlock != nil && l.blocks[fe.curBlock] {
			l.writes.cells[a] = true
		}
	}
	st.cells[a] = fe.define("c."+a.Comment, v)
}

func (fe *FnEnc) setGhost(st *State, k ssa.Value, v Term) {
	for _, l := range fe.loops {
		if fe.curBlock != nil && l.blocks[fe.curBlock] {
			l.writes.ghost[k] = true
		}
	}
	st.ghost[k] = fe.define("g", v)
}

// ---------------------------------------------------------------------
// sub-objects and escaping fields

func (fe *FnEnc) subAddr(st types.Type, i int, base Term) Term {
	name := q(fmt.Sprintf("sub.%s.%d", typeKey(types.Unalias(st)), i))
	if !fe.declared[name] {
		fe.declared[name] = true
		inv := q(fmt.Sprintf("sub.%s.%d.inv", typeKey(types.Unalias(st)), i))
		fe.declFun("subkind", []string{sInt}, sInt)
		h := fnv.New32a()
		h.Write([]byte(name))
		kind := int(h.Sum32()%1000000) + 1
		fe.emit("(declare-fun " + name + " (Int) Int)")
		fe.emit("(declare-fun " + inv + " (Int) Int)")
		fe.emit(fmt.Sprintf("(assert (forall ((a Int)) (! (and (= (%s (%s a)) a) (= (subkind (%s a)) %d) (=> (not (= a 0)) (< (%s a) 0))) :pattern ((%s a)))))", inv, name, name, kind, name, name))
	}
	return Term{"(" + name + " " + base.S + ")", sInt}
}

// fieldLoc returns (component, index term) for a non-struct field.
func (fe *FnEnc) fieldLoc(st types.Type, i int, base Term) (string, string, Term) {
	s := structOf(st)
	fs := fe.sorts.sortOf(s.Field(i).Type())
	if fe.c.escFields[escKey(st, i)] {
		fe.compT[compCell(fs)] = s.Field(i).Type()
		return compCell(fs), arrSort(sInt, fs), fe.subAddr(st, i, base)
	}
	fe.compT[compField(st, i)] = s.Field(i).Type()
	return compField(st, i), arrSort(sInt, fs), base
}

func (fe *FnEnc) loadField(st *State, structT types.Type, i int, base Term, old bool) Term {
	s := structOf(structT)
	ft := s.Field(i).Type()
	if structOf(ft) != nil {
		return fe.loadStruct(st, ft, fe.subAddr(structT, i, base), old)
	}
	comp, srt, idx := fe.fieldLoc(structT, i, base)
	var h Term
	if old {
		h = fe.oldComp(comp, srt)
	} else {
		h = fe.getComp(st, comp, srt)
	}
	return tSel(h, idx)
}

func (fe *FnEnc) loadStruct(st *State, structT types.Type, base Term, old bool) Term {
	s := structOf(structT)
	fs := make([]Term, s.NumFields())
	for i := range fs {
		fs[i] = fe.loadField(st, structT, i, base, old)
	}
	return fe.sorts.mkStruct(structT, fs)
}

func (fe *FnEnc) storeField(st *State, structT types.Type, i int, base Term, v Term) {
	s := structOf(structT)
	ft := s.Field(i).Type()
	if structOf(ft) != nil {
		fe.storeStruct(st, ft, fe.subAddr(structT, i, base), v)
		return
	}
	comp, srt, idx := fe.fieldLoc(structT, i, base)
	h := fe.getComp(st, comp, srt)
	fe.setComp(st, comp, srt, tStore(h, idx, v))
}

func isSyncMutex(t types.Type) bool {
	n, ok := types.Unalias(t).(*types.Named)
	return ok && n.Obj().Pkg() != nil && n.Obj().Pkg().Path() == "sync" && (n.Obj().Name() == "Mutex" || n.Obj().Name() == "RWMutex")
}

func (fe *FnEnc) storeStruct(st *State, structT types.Type, base Term, v Term) {
	s := structOf(structT)
	if isSyncMutex(structT) {
		// (re)initialising a mutex value: it is unlocked
		srt := arrSort(sInt, sBool)
		fe.setComp(st, "held", srt, tStore(fe.getComp(st, "held", srt), base, tFalse))
	}
	v = fe.define("sv", v)
	for i := 0; i < s.NumFields(); i++ {
		fe.storeField(st, structT, i, base, fe.sorts.fieldSel(structT, i, v))
	}
}

// ---------------------------------------------------------------------
// projections inside values

func (fe *FnEnc) project(v Term, path []pathEl) Term {
	for _, p := range path {
		if p.field >= 0 {
			v = fe.sorts.fieldSel(p.T, p.field, v)
		} else {
			v = tSel(v, *p.idx)
		}
	}
	return v
}

func (fe *FnEnc) update(v Term, path []pathEl, nv Term) Term {
	if len(path) == 0 {
		return nv
	}
	p := path[0]
	if p.field >= 0 {
		inner := fe.sorts.fieldSel(p.T, p.field, v)
		return fe.sorts.fieldUpd(p.T, p.field, v, fe.update(inner, path[1:], nv))
	}
	inner := tSel(v, *p.idx)
	return tStore(v, *p.idx, fe.update(inner, path[1:], nv))
}

func pathType(root types.Type, path []pathEl) types.Type {
	t := root
	for _, p := range path {
		if p.field >= 0 {
			t = structOf(p.T).Field(p.field).Type()
		} else {
			t = p.T.Underlying().(*types.Array).Elem()
		}
	}
	return t
}

// ---------------------------------------------------------------------
// load / store through addresses

func (fe *FnEnc) cellVal(st *State, a *ssa.Alloc) Term {
	if v, ok := st.cells[a]; ok {
		return v
	}
	z := fe.sorts.zero(a.Type().Underlying().(*types.Pointer).Elem())
	st.cells[a] = z
	return z
}

func (fe *FnEnc) load(st *State, a *Addr) Term {
	switch a.kind {
	case aLocal:
		return fe.project(fe.cellVal(st, a.alloc), a.path)
	case aStruct:
		return fe.loadStruct(st, a.T, a.base, false)
	case aField:
		v := fe.loadField(st, a.T, a.fld, a.base, false)
		return fe.project(v, a.path)
	case aElem:
		es := fe.sorts.sortOf(a.T)
		fe.compT[compElems(es)] = a.T
		h := fe.getComp(st, compElems(es), arrSort(sInt, arrSort(sInt, es)))
		return fe.project(tSel(tSel(h, a.base), a.pos), a.path)
	case aCell:
		cs := fe.sorts.sortOf(a.T)
		fe.compT[compCell(cs)] = a.T
		h := fe.getComp(st, compCell(cs), arrSort(sInt, cs))
		return fe.project(tSel(h, a.base), a.path)
	case aGlobal:
		return fe.project(fe.globalVal(st, a.glob.Pkg.Pkg.Name(), a.glob.Name(), a.T), a.path)
	}
	panic("load: bad addr")
}

func (fe *FnEnc) store(st *State, a *Addr, v Term) {
	switch a.kind {
	case aLocal:
		fe.setCell(st, a.alloc, fe.update(fe.cellVal(st, a.alloc), a.path, v))
	case aStruct:
		fe.storeStruct(st, a.T, a.base, v)
	case aField:
		if len(a.path) > 0 {
			cur := fe.loadField(st, a.T, a.fld, a.base, false)
			v = fe.update(cur, a.path, v)
		}
		fe.storeField(st, a.T, a.fld, a.base, v)
	case aElem:
		es := fe.sorts.sortOf(a.T)
		cn, cs := compElems(es), arrSort(sInt, arrSort(sInt, es))
		fe.compT[cn] = a.T
		h := fe.getComp(st, cn, cs)
		row := tSel(h, a.base)
		if len(a.path) > 0 {
			v = fe.update(tSel(row, a.pos), a.path, v)
		}
		fe.setComp(st, cn, cs, tStore(h, a.base, tStore(row, a.pos, v)))
		if !fe.dry {
			// forward propagation: elements known in the old heap are known in the new one (witnesses for existential goals)
			h2 := fe.getComp(st, cn, cs)
			pos := fe.define("st.pos", a.pos)
			fe.emit(fmt.Sprintf("(assert (forall ((p Int)) (! (=> (not (= p %s)) (= (select (select %s %s) p) (select (select %s %s) p))) :pattern ((select (select %s %s) p)) :pattern ((select (select %s %s) p)))))",
				pos.S, h2.S, a.base.S, h.S, a.base.S, h.S, a.base.S, h2.S, a.base.S))
		}
	case aCell:
		cs := fe.sorts.sortOf(a.T)
		cn, srt := compCell(cs), arrSort(sInt, cs)
		fe.compT[cn] = a.T
		h := fe.getComp(st, cn, srt)
		if len(a.path) > 0 {
			v = fe.update(tSel(h, a.base), a.path, v)
		}
		fe.setComp(st, cn, srt, tStore(h, a.base, v))
	case aGlobal:
		gs := fe.sorts.sortOf(a.T)
		cn := "G." + a.glob.Pkg.Pkg.Name() + "." + a.glob.Name()
		if len(a.path) > 0 {
			v = fe.update(fe.getComp(st, cn, gs), a.path, v)
		}
		fe.setComp(st, cn, gs, v)
	default:
		panic("store: bad addr")
	}
}

// globalVal: package-level variables never assigned outside initialisers are constants.
func (fe *FnEnc) globalVal(st *State, pkg, name string, t types.Type) Term {
	gs := fe.sorts.sortOf(t)
	if !fe.c.mutGlobals[pkg+"."+name] {
		n := q("G." + pkg + "." + name)
		if !fe.declared[n] {
			fe.declared[n] = true
			fe.emit("(declare-const " + n + " " + gs + ")")
			if _, ok := t.Underlying().(*types.Pointer); ok {
				fe.emit("(assert (not (= " + n + " 0)))") // initialised by MustCompile / constructors
			}
			// sentinel errors of the module are told apart from whatever the standard library returns
			if gs == sIface {
				fe.declFun("own.err", []string{sIface}, sBool)
				fe.emit("(assert (own.err " + n + "))")
			}
			// what a constant global refers to existed when the function was entered (objects made later are different)
			if w := fe.wf(t, Term{n, gs}, fe.oldComp("alloc", sInt), 0); w.S != "true" {
				fe.emit("(assert " + w.S + ")")
			}
		}
		return Term{n, gs}
	}
	return fe.getComp(st, "G."+pkg+"."+name, gs)
}

// elemAt is the element k of slice s in element heap h, as a function application so that
// quantified specifications and the code's own accesses share one trigger shape.
func (fe *FnEnc) elemAt(h, s, k Term) Term {
	es := arrElemSort(arrElemSort(h.Sort))
	fn := q("at." + stripQ(es))
	if !fe.declared[fn] {
		fe.declared[fn] = true
		fe.emit(fmt.Sprintf("(declare-fun %s (%s Slice Int) %s)", fn, h.Sort, es))
		fe.emit(fmt.Sprintf("(assert (forall ((h %s) (s Slice) (k Int)) (! (= (%s h s k) (select (select h (s_arr s)) (+ (s_off s) k))) :pattern ((%s h s k)))))", h.Sort, fn, fn))
	}
	return Term{app(fn, h, s, k), es}
}

// addrOf turns a pointer-typed RV into an address.
func (fe *FnEnc) addrOf(rv RV, ptrT types.Type) *Addr {
	if rv.A != nil {
		return rv.A
	}
	el := ptrT.Underlying().(*types.Pointer).Elem()
	if structOf(el) != nil {
		return &Addr{kind: aStruct, base: rv.T, T: el}
	}
	return &Addr{kind: aCell, base: rv.T, T: el}
}

// ptrTerm turns an address into a pointer value (Int).
func (fe *FnEnc) ptrTerm(a *Addr) (Term, bool) {
	switch a.kind {
	case aStruct:
		return a.base, true
	case aCell:
		if len(a.path) == 0 {
			return a.base, true
		}
	case aField:
		if len(a.path) == 0 && fe.c.escFields[escKey(a.T, a.fld)] {
			return fe.subAddr(a.T, a.fld, a.base), true
		}
	case aGlobal:
		if len(a.path) == 0 {
			n := q("gaddr." + a.glob.Pkg.Pkg.Name() + "." + a.glob.Name())
			fe.declConst(n, sInt)
			return Term{n, sInt}, true
		}
	}
	return Term{}, false
}

// val gives the SMT term of an RV (pointers become Ints).
func (fe *FnEnc) val(rv RV) Term {
	if rv.A != nil {
		t, ok := fe.ptrTerm(rv.A)
		if !ok {
			fe.unsupported("address of kind %d escapes as a value", rv.A.kind)
			return fe.fresh("escaddr", sInt)
		}
		return t
	}
	return rv.T
}

// ---------------------------------------------------------------------
// well-formedness assumptions for values entering the function

func (fe *FnEnc) wf(t types.Type, v Term, alloc Term, depth int) Term {
	t = types.Unalias(t)
	if isTimeTime(t) {
		return tTrue
	}
	if _, ok := t.(*types.TypeParam); ok {
		return tTrue
	}
	switch u := t.Underlying().(type) {
	case *types.Basic:
		if u.Info()&types.IsInteger != 0 {
			switch u.Kind() {
			case types.Uint, types.Uint64, types.Uintptr, types.Uint32, types.Uint16, types.Uint8:
				lo := tCmp(">=", v, tInt(0))
				switch u.Kind() {
				case types.Uint8:
					return tAnd(lo, tCmp("<=", v, tInt(255)))
				case types.Uint16:
					return tAnd(lo, tCmp("<=", v, tInt(65535)))
				case types.Uint32:
					return tAnd(lo, tCmp("<=", v, tInt(4294967295)))
				}
				return lo
			case types.Int8:
				return tAnd(tCmp(">=", v, tInt(-128)), tCmp("<=", v, tInt(127)))
			case types.Int16:
				return tAnd(tCmp(">=", v, tInt(-32768)), tCmp("<=", v, tInt(32767)))
			case types.Int32:
				return tAnd(tCmp(">=", v, tInt(-2147483648)), tCmp("<=", v, tInt(2147483647)))
			}
		}
		return tTrue
	case *types.Slice:
		return tAnd(tCmp("<=", tInt(0), slOff(v)), tCmp("<=", tInt(0), slLen(v)), tCmp("<=", slLen(v), slCap(v)),
			tCmp("<=", tInt(0), slArr(v)), tCmp("<=", slArr(v), alloc), tImp(tEq(slArr(v), tInt(0)), tEq(slCap(v), tInt(0))))
	case *types.Map, *types.Chan:
		return tAnd(tCmp("<=", tInt(0), v), tCmp("<=", v, alloc))
	case *types.Pointer, *types.Signature:
		return tCmp("<=", v, alloc)
	case *types.Interface:
		return tAnd(tCmp("<=", ifVal(v), alloc), tCmp("<=", tInt(0), ifTyp(v)), tImp(tEq(ifTyp(v), tInt(0)), tEq(ifVal(v), tInt(0))))
	case *types.Struct:
		if depth > 3 {
			return tTrue
		}
		var cs []Term
		for i := 0; i < u.NumFields(); i++ {
			cs = append(cs, fe.wf(u.Field(i).Type(), fe.sorts.fieldSel(t, i, v), alloc, depth+1))
		}
		return tAnd(cs...)
	}
	return tTrue
}

func (fe *FnEnc) assumeWF(st *State, t types.Type, v Term) {
	if fe.dry {
		return
	}
	f := fe.wf(t, v, fe.alloc(st), 0)
	if f.S != "true" {
		fe.emit("(assert " + f.S + ")")
	}
}

// ---------------------------------------------------------------------
// obligations

func (fe *FnEnc) propsFor(cl *Clause) []string {
	if cl != nil && cl.Props != nil {
		return cl.Props
	}
	if fe.contract != nil {
		return fe.contract.Props
	}
	return nil
}

func (fe *FnEnc) addObl(st *State, kind, label string, props []string, goal Term, pos token.Pos) *Obl {
	if fe.dry {
		return nil
	}
	base := fe.pkgShort() + "." + fe.key + "#" + kind
	if label != "" {
		base += ":" + label
	}
	fe.oblCount[base]++
	id := base
	if n := fe.oblCount[base]; n > 1 {
		id = fmt.Sprintf("%s#%d", base, n)
	}
	o := &Obl{ID: id, Fn: fe.pkgShort() + "." + fe.key, Kind: kind, Props: props, Prefix: len(fe.lines), PC: st.pc, Goal: goal, Pos: pos, NLits: len(fe.litOrder), NFlags: len(fe.flags)}
	fe.obls = append(fe.obls, o)
	return o
}

func (fe *FnEnc) pkgShort() string {
	d := pkgDir(fe.pkgPath)
	if d == "" {
		return "olareg"
	}
	return d
}

// flagSettings gives the assertions fixing the assumption switches for one obligation.
func (fe *FnEnc) flagSettings(o *Obl) []string {
	var out []string
	for _, f := range fe.flags[:o.NFlags] {
		on := o.Uses == nil || strings.HasPrefix(f, "pre.")
		for _, u := range o.Uses {
			if u == f || strings.HasPrefix(f, u+".") || (strings.HasSuffix(u, "*") && strings.HasPrefix(f, strings.TrimSuffix(u, "*"))) {
				on = true
			}
			// Key:label matches call.Key@n.label (and its conjunct switches) for every call occurrence
			if k, l, ok := strings.Cut(u, ":"); ok && k == "*" && strings.HasPrefix(f, "call.") {
				// any callee: call.<Key>@<n>.<label>[.conjunct]
				if i := strings.Index(f, "@"); i >= 0 {
					rest := f[i+1:]
					if j := strings.Index(rest, "."); j >= 0 {
						rest = rest[j+1:]
						if rest == l || strings.HasPrefix(rest, l+".") {
							on = true
						}
					}
				}
			} else if ok && strings.HasPrefix(f, "call."+k+"@") {
				rest := f[len("call."+k+"@"):]
				if i := strings.Index(rest, "."); i >= 0 {
					rest = rest[i+1:]
					if rest == l || strings.HasPrefix(rest, l+".") {
						on = true
					}
				}
			}
		}
		if on {
			out = append(out, "(assert "+q("use."+f)+")")
		} else {
			out = append(out, "(assert (not "+q("use."+f)+"))")
		}
	}
	return out
}

// resolveUses turns the names of a uses(...) list into flag names; bare names are invariants of loop ord.
func resolveUses(uses []string, ord int, self string) []string {
	if uses == nil {
		return nil
	}
	out := []string{}
	if self != "" {
		out = append(out, self)
	}
	for _, u := range uses {
		switch {
		case strings.Contains(u, ":"):
			if n, l, ok := strings.Cut(u, ":"); ok {
				if _, err := fmt.Sscanf(n, "%d", new(int)); err == nil {
					out = append(out, "L"+n+"."+l)
					continue
				}
			}
			out = append(out, u)
		case strings.HasPrefix(u, "assert."), strings.HasPrefix(u, "assume."), strings.HasPrefix(u, "call."):
			// cut points, assumed dependency contracts and callee postconditions by their flag name (a trailing * matches a prefix)
			out = append(out, u)
		case ord > 0:
			out = append(out, fmt.Sprintf("L%d.%s", ord, u))
		default:
			out = append(out, u)
		}
	}
	return out
}

// splitGoal breaks a specification into conjuncts (through predicates, implications and universal quantifiers).
func (fe *FnEnc) splitGoal(ex Expr, env *Env, depth int) []Expr {
	if depth > 12 {
		return []Expr{ex}
	}
	switch x := ex.(type) {
	case EBin:
		switch x.Op {
		case "&&":
			return append(fe.splitGoal(x.L, env, depth+1), fe.splitGoal(x.R, env, depth+1)...)
		case "==>":
			rs := fe.splitGoal(x.R, env, depth+1)
			if len(rs) <= 1 {
				return []Expr{ex}
			}
			out := make([]Expr, len(rs))
			for i, r := range rs {
				out[i] = EBin{"==>", x.L, r}
			}
			return out
		}
	case EQuant:
		if x.Forall {
			bs := fe.splitGoal(x.Body, env, depth+1)
			if len(bs) <= 1 {
				return []Expr{ex}
			}
			out := make([]Expr, len(bs))
			for i, b := range bs {
				out[i] = EQuant{true, x.Vars, b, nil}
			}
			return out
		}
	case ECall:
		if p := fe.findPred(env, x.Fn); p != nil && len(p.Params) == len(x.Args) {
			m := map[string]Expr{}
			for i, pn := range p.Params {
				m[pn] = x.Args[i]
			}
			return fe.splitGoal(substExpr(p.Body, m), env, depth+1)
		}
	}
	return []Expr{ex}
}

// addOblExpr adds an obligation for a specification expression; its conjuncts are decided separately.
func (fe *FnEnc) addOblExpr(st *State, kind, label string, props []string, ex Expr, env *Env, pos token.Pos) *Obl {
	if fe.dry {
		return nil
	}
	parts := fe.splitGoal(ex, env, 0)
	if len(parts) > 40 {
		parts = []Expr{ex}
	}
	fe.qctx = "goal." + kind + "." + label
	var ts []Term
	for _, p := range parts {
		ts = append(ts, fe.trBool(p, env))
	}
	o := fe.addObl(st, kind, label, props, tAnd(ts...), pos)
	if len(ts) > 1 {
		o.Parts = ts
	}
	o.Prefix = len(fe.lines)
	o.NLits = len(fe.litOrder)
	o.NFlags = len(fe.flags)
	return o
}

// safety obligation; always tagged with C15 plus the function's own properties
func (fe *FnEnc) safety(st *State, kind string, pos token.Pos, goal Term) {
	if fe.dry || !fe.sweep || goal.S == "true" {
		return
	}
	props := []string{"C15"}
	if fe.contract != nil {
		for _, p := range fe.contract.Props {
			if p != "C15" {
				props = append(props, p)
			}
		}
	}
	fe.addObl(st, kind, fe.srcText(pos, kind), props, goal, pos)
	// later code may rely on it
	fe.assume(st, goal)
}

func (fe *FnEnc) astFile(pos token.Pos) *ast.File {
	if !pos.IsValid() {
		return nil
	}
	pp := fe.c.ppkgs[fe.pkgPath]
	if pp == nil {
		return nil
	}
	for _, f := range pp.Syntax {
		if f.FileStart <= pos && pos <= f.FileEnd {
			return f
		}
	}
	return nil
}

// callSrc: the source text of the call expression at pos (whole expression, for text-anchored cut points)
func (fe *FnEnc) callSrc(pos token.Pos) string {
	f := fe.astFile(pos)
	if f == nil {
		return ""
	}
	path, _ := astutil.PathEnclosingInterval(f, pos, pos)
	for _, n := range path {
		if c, ok := n.(*ast.CallExpr); ok {
			var sb strings.Builder
			_ = printer.Fprint(&sb, fe.c.fset, c)
			return strings.Join(strings.Fields(sb.String()), " ")
		}
	}
	return ""
}

// textOrdinal: among the call expressions of the function under verification whose source text contains text, in source
// order, the 1-based position of the one at pos (0: none)
func (fe *FnEnc) textOrdinal(pos token.Pos, text string) int {
	return fe.textOrdinalAny(pos, []string{text})
}

// textOrdinalAny counts the call sites whose text contains any of the texts (an anchor and its renamed variants)
func (fe *FnEnc) textOrdinalAny(pos token.Pos, texts []string) int {
	f := fe.astFile(pos)
	if f == nil {
		return 0
	}
	var here *ast.CallExpr
	path, _ := astutil.PathEnclosingInterval(f, pos, pos)
	for _, n := range path {
		if c, ok := n.(*ast.CallExpr); ok {
			here = c
			break
		}
	}
	if here == nil {
		return 0
	}
	var root ast.Node
	for _, n := range path {
		switch n.(type) {
		case *ast.FuncDecl:
			root = n
		}
	}
	if root == nil {
		root = f
	}
	k, found := 0, 0
	ast.Inspect(root, func(n ast.Node) bool {
		if c, ok := n.(*ast.CallExpr); ok {
			var sb strings.Builder
			_ = printer.Fprint(&sb, fe.c.fset, c)
			ct := strings.Join(strings.Fields(sb.String()), " ")
			hit := false
			for _, text := range texts {
				if strings.Contains(ct, text) {
					hit = true
				}
			}
			if hit {
				k++
				if c == here {
					found = k
				}
			}
		}
		return true
	})
	return found
}

func (fe *FnEnc) srcText(pos token.Pos, kind string) string {
	f := fe.astFile(pos)
	if f == nil {
		return "?"
	}
	path, _ := astutil.PathEnclosingInterval(f, pos, pos)
	for _, n := range path {
		ok := false
		switch n.(type) {
		case *ast.IndexExpr:
			ok = kind == "bounds" || kind == "mapwrite" || kind == "nil"
		case *ast.SliceExpr:
			ok = kind == "bounds" || kind == "nil"
		case *ast.SelectorExpr, *ast.StarExpr:
			ok = kind == "nil"
		case *ast.TypeAssertExpr:
			ok = kind == "assert"
		case *ast.CallExpr:
			ok = kind == "nil" || kind == "relock" || kind == "bounds" || kind == "pre" || kind == "neg" || kind == "deppanic"
		case *ast.BinaryExpr:
			ok = kind == "div"
		case *ast.AssignStmt, *ast.IncDecStmt, *ast.RangeStmt, *ast.ReturnStmt, *ast.ExprStmt:
			ok = true
		}
		if ok {
			var sb strings.Builder
			_ = printer.Fprint(&sb, fe.c.fset, n)
			s := strings.Join(strings.Fields(sb.String()), " ")
			if i := strings.Index(s, " {"); i > 0 {
				s = s[:i]
			}
			if len(s) > 60 {
				s = s[:60]
			}
			return s
		}
	}
	return "?"
}

// ---------------------------------------------------------------------
// constants

func (fe *FnEnc) constVal(c *ssa.Const) RV {
	t := c.Type()
	if c.Value == nil {
		if _, ok := t.Underlying().(*types.Basic); ok && t.Underlying().(*types.Basic).Kind() == types.UntypedNil {
			return RV{T: tInt(0), Typ: t, Valid: true}
		}
		return RV{T: fe.sorts.zero(t), Typ: t, Valid: true}
	}
	switch c.Value.Kind() {
	case constant.Bool:
		return RV{T: tBool(constant.BoolVal(c.Value)), Typ: t, Valid: true}
	case constant.String:
		return RV{T: fe.strLit(constant.StringVal(c.Value)), Typ: t, Valid: true}
	case constant.Int:
		if fe.sorts.sortOf(t) == sReal {
			return RV{T: Term{c.Value.ExactString() + ".0", sReal}, Typ: t, Valid: true}
		}
		return RV{T: tIntS(c.Value.ExactString()), Typ: t, Valid: true}
	case constant.Float:
		f, _ := constant.Float64Val(c.Value)
		s := fmt.Sprintf("%f", f)
		if f < 0 {
			s = fmt.Sprintf("(- %f)", -f)
		}
		if fe.sorts.sortOf(t) == sInt {
			return RV{T: tInt(int64(f)), Typ: t, Valid: true}
		}
		return RV{T: Term{s, sReal}, Typ: t, Valid: true}
	}
	fe.unsupported("constant %v", c)
	return RV{T: fe.fresh("const", fe.sorts.sortOf(t)), Typ: t, Valid: true}
}

// get returns the RV of an SSA value.
func (fe *FnEnc) get(st *State, v ssa.Value) RV {
	switch x := v.(type) {
	case *ssa.Const:
		return fe.constVal(x)
	case *ssa.Global:
		return RV{A: &Addr{kind: aGlobal, glob: x, T: x.Type().Underlying().(*types.Pointer).Elem()}, Typ: x.Type(), Valid: true}
	case *ssa.Function:
		n := q("fn." + x.String())
		fe.declConst(n, sInt)
		return RV{T: Term{n, sInt}, Typ: x.Type(), Clos: &ClosInfo{Fn: x}, Valid: true}
	case *ssa.Builtin:
		return RV{Typ: x.Type(), Valid: true}
	}
	if rv, ok := fe.regs[v]; ok {
		return rv
	}
	if a, ok := v.(*ssa.Alloc); ok && !a.Heap {
		return RV{A: &Addr{kind: aLocal, alloc: a, T: a.Type().Underlying().(*types.Pointer).Elem()}, Typ: a.Type(), Valid: true}
	}
	// value defined in a block not yet processed (should not happen in RPO) -> unconstrained
	fe.unsupported("use of undefined value %s", v.Name())
	rv := RV{T: fe.fresh("undef", fe.sorts.sortOf(v.Type())), Typ: v.Type(), Valid: true}
	fe.regs[v] = rv
	return rv
}

func (fe *FnEnc) getT(st *State, v ssa.Value) Term {
	return fe.val(fe.get(st, v))
}

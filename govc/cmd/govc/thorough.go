package main

import (
	"bytes"
	"context"
	"encoding/json"
	"flag"
	"fmt"
	"os"
	"os/exec"
	"path/filepath"
	"sort"
	"strings"
	"time"
)

// mutantsFor lists the mutant patches whose file name starts with the property id.
func mutantsFor(prop string) []string {
	ms, _ := filepath.Glob(filepath.Join(verifRoot(), "selftest", "mutants", prop+"_*.diff"))
	sort.Strings(ms)
	return ms
}

// runMutant reports the obligations of prop that fail (or disappear) when the patch is applied through the loader overlay.
func runMutant(repo, prop, patch string, timeout int, lock map[string]*lockEntry) ([]string, error) {
	ov, err := overlayFromPatch(repo, patch)
	if err != nil {
		return nil, err
	}
	c, err := loadProgram(repo, []string{"./..."}, ov)
	if err != nil {
		return nil, err
	}
	known := map[string]bool{}
	for _, f := range readFindings() {
		if f.Kind == "finding" {
			known[f.Obl] = true
		}
	}
	noRetry = true // a mutant is expected to fail: no second, sequential attempts
	out := c.runProperty(prop, timeout, 0, false, func(id string) bool {
		e, ok := lock[id]
		return (ok && e.Status == "open") || known[id]
	})
	noRetry = false
	var failed []string
	seen := map[string]bool{}
	base := map[string]bool{}
	for _, r := range out.results {
		seen[r.Obl.ID] = true
		base[oblBase(r.Obl.ID)] = true
		if !r.OK {
			failed = append(failed, r.Obl.ID+" ("+r.Status+")")
		}
	}
	for id := range out.skipped {
		base[oblBase(id)] = true
	}
	// the same tolerance as the check: renamed annotation-free obligations and vanished ordinals are not a kill
	for id, e := range lock {
		if hasProp(e.Props, prop) && e.Status != "open" && !seen[id] && !textKeyed(id) && !(oblBase(id) != id && base[oblBase(id)]) && !(e.Status == "cover" && base[oblBase(id)]) {
			failed = append(failed, id+" (no longer generated)")
		}
	}
	for _, e := range out.encErrs {
		failed = append(failed, "encoder: "+strings.SplitN(e, "\n", 2)[0])
	}
	// properties with a bounded stand-in: the harness runs on the mutated sources too
	if pkg, ok := boundedHarness[prop]; ok && len(failed) == 0 {
		_, fails := runBoundedOverlay(c, prop, "quick", pkg, filepath.Join(verifRoot(), "work", "selftest-bounded"), ov)
		for _, f := range fails {
			if known["bounded:"+f[0]] {
				continue // a recorded known finding is not what the mutant broke
			}
			failed = append(failed, "bounded:"+f[0])
		}
	}
	sort.Strings(failed)
	return failed, nil
}

func thorough(c *Ctx, prop string, cov map[string]any, seed int) {
	lock, _ := readLock()
	ms := mutantsFor(prop)
	killed := 0
	var survivors []string
	detail := map[string]any{}
	for _, m := range ms {
		failed, err := runMutant(c.repo, prop, m, 10, lock)
		name := filepath.Base(m)
		if err != nil {
			detail[name] = "error: " + err.Error()
			survivors = append(survivors, name)
			continue
		}
		if len(failed) > 0 {
			killed++
			if len(failed) > 5 {
				failed = append(failed[:5], fmt.Sprintf("... %d more", len(failed)-5))
			}
			detail[name] = failed
		} else {
			survivors = append(survivors, name)
		}
		fmt.Fprintf(os.Stderr, "mutant %s: %d obligations fail\n", name, len(failed))
	}
	cov["mutants_total"] = len(ms)
	cov["mutants_killed"] = killed
	cov["mutant_survivors"] = survivors
	cov["mutant_detail"] = detail
}

func cmdSelftest(args []string) int {
	fs := flag.NewFlagSet("selftest", flag.ExitOnError)
	repo := fs.String("repo", "/repo", "")
	only := fs.String("property", "", "")
	_ = fs.Parse(args)
	lock, _ := readLock()
	bad := 0
	ms, _ := filepath.Glob(filepath.Join(verifRoot(), "selftest", "mutants", "*.diff"))
	sort.Strings(ms)
	for _, m := range ms {
		name := filepath.Base(m)
		prop, _, _ := strings.Cut(name, "_")
		if *only != "" && prop != *only {
			continue
		}
		failed, err := runMutant(*repo, prop, m, 10, lock)
		switch {
		case err != nil:
			fmt.Printf("ERROR    %s: %v\n", name, err)
			bad++
		case len(failed) == 0:
			fmt.Printf("SURVIVED %s\n", name)
			bad++
		default:
			fmt.Printf("killed   %s: %s\n", name, strings.Join(failed[:min(3, len(failed))], "; "))
		}
	}
	if bad > 0 {
		return 1
	}
	return 0
}

// replayOnCode runs the replay template of the obligation's function (a bounded search that evaluates
// the dynamic version of the contract on the real code) through `go test -overlay`.
func replayOnCode(c *Ctx, prop, oblID, dir string) map[string]any {
	// obligation id: <pkgdir>.<Key>#kind:label
	head, _, _ := strings.Cut(oblID, "#")
	var pkg, key string
	for _, p := range []string{"internal/store", "internal/cache", "cmd/olareg", "types", "config", "olareg"} {
		if strings.HasPrefix(head, p+".") {
			pkg, key = p, head[len(p)+1:]
			break
		}
	}
	if pkg == "" {
		return nil
	}
	tmpl := filepath.Join(verifRoot(), "replay", "templates", pkg, sanitizeFile(key)+"_test.go")
	if _, err := os.Stat(tmpl); err != nil {
		tmpl = filepath.Join(verifRoot(), "replay", "templates", pkg, "_package_test.go")
	}
	if _, err := os.Stat(tmpl); err != nil {
		return map[string]any{"template": "none for " + pkg + "." + key, "failing_input_found": false}
	}
	pkgPath := c.repo
	if pkg != "olareg" {
		pkgPath = filepath.Join(c.repo, pkg)
	}
	ov := map[string]any{"Replace": map[string]string{filepath.Join(pkgPath, "zz_verif_replay_test.go"): tmpl}}
	ob, _ := json.Marshal(ov)
	ovFile := filepath.Join(dir, "overlay.json")
	_ = os.WriteFile(ovFile, ob, 0o644)
	ctx, cancel := context.WithTimeout(context.Background(), 180*time.Second)
	defer cancel()
	rel := "./" + pkg
	if pkg == "olareg" {
		rel = "."
	}
	cmd := exec.CommandContext(ctx, "go", "test", "-overlay", ovFile, "-vet=off", "-count=1", "-timeout", "120s", "-run", "TestVerifReplay", rel)
	cmd.Dir = c.repo
	cmd.Env = append(os.Environ(), "GOFLAGS=-mod=mod", "GOPROXY=off", "GOSUMDB=off", "GOTOOLCHAIN=local",
		"VERIF_OBLIGATION="+oblID, fmt.Sprintf("VERIF_SEED=%d", envInt("VERIF_SEED", 0)))
	var outb bytes.Buffer
	cmd.Stdout = &outb
	cmd.Stderr = &outb
	_ = cmd.Run()
	text := outb.String()
	_ = os.WriteFile(filepath.Join(dir, "replay_output.txt"), []byte(text), 0o644)
	res := map[string]any{"template": tmpl, "command": strings.Join(cmd.Args, " "), "output": filepath.Join(dir, "replay_output.txt"), "failing_input_found": false}
	for _, l := range strings.Split(text, "\n") {
		if i := strings.Index(l, "REPLAY-FAIL:"); i >= 0 {
			res["failing_input_found"] = true
			res["failing_input"] = strings.TrimSpace(l[i+len("REPLAY-FAIL:"):])
			break
		}
	}
	return res
}

package main

// Regular expressions of the code against the grammar written in the contract: `regexp Name == "pattern"`.
// The handlers are verified with regexp.MatchString as an uninterpreted predicate per compiled expression (re_Name);
// what that predicate means is fixed here: the expression the variable is compiled from (read from the source on
// every run) and the pattern of the contract are both translated to SMT-LIB regular expressions (regexp/syntax
// gives the parsed form, with case folding already expanded into the character classes), and the solver is asked
// for a string that one accepts and the other does not.  unsat: same language, for every string.

import (
	"fmt"
	"go/ast"
	"go/token"
	"os"
	"path/filepath"
	"regexp"
	"regexp/syntax"
	"strconv"
	"strings"
	"unicode"
)

func reToSMT(re *syntax.Regexp) (string, error) {
	ch := func(r rune) string { return fmt.Sprintf("(_ char #x%X)", r) }
	switch re.Op {
	case syntax.OpEmptyMatch:
		return `(str.to_re "")`, nil
	case syntax.OpLiteral:
		var parts []string
		for _, r := range re.Rune {
			if re.Flags&syntax.FoldCase != 0 {
				// all runes that fold to r
				alts := []string{"(str.to_re (str.from_code " + strconv.Itoa(int(r)) + "))"}
				for f := unicodeSimpleFold(r); f != r; f = unicodeSimpleFold(f) {
					alts = append(alts, "(str.to_re (str.from_code "+strconv.Itoa(int(f))+"))")
				}
				if len(alts) == 1 {
					parts = append(parts, alts[0])
				} else {
					parts = append(parts, "(re.union "+strings.Join(alts, " ")+")")
				}
			} else {
				parts = append(parts, "(str.to_re (str.from_code "+strconv.Itoa(int(r))+"))")
			}
		}
		if len(parts) == 1 {
			return parts[0], nil
		}
		return "(re.++ " + strings.Join(parts, " ") + ")", nil
	case syntax.OpCharClass:
		var alts []string
		for i := 0; i+1 < len(re.Rune); i += 2 {
			lo, hi := re.Rune[i], re.Rune[i+1]
			if hi > 0x2FFFF {
				hi = 0x2FFFF
			}
			if lo > hi {
				continue
			}
			alts = append(alts, fmt.Sprintf("(re.range (str.from_code %d) (str.from_code %d))", lo, hi))
		}
		_ = ch
		switch len(alts) {
		case 0:
			return "re.none", nil
		case 1:
			return alts[0], nil
		}
		return "(re.union " + strings.Join(alts, " ") + ")", nil
	case syntax.OpAnyChar, syntax.OpAnyCharNotNL:
		if re.Op == syntax.OpAnyChar {
			return "re.allchar", nil
		}
		return `(re.diff re.allchar (str.to_re "\u{a}"))`, nil
	case syntax.OpCapture:
		return reToSMT(re.Sub[0])
	case syntax.OpStar, syntax.OpPlus, syntax.OpQuest:
		s, err := reToSMT(re.Sub[0])
		if err != nil {
			return "", err
		}
		op := map[syntax.Op]string{syntax.OpStar: "re.*", syntax.OpPlus: "re.+", syntax.OpQuest: "re.opt"}[re.Op]
		return "(" + op + " " + s + ")", nil
	case syntax.OpRepeat:
		s, err := reToSMT(re.Sub[0])
		if err != nil {
			return "", err
		}
		if re.Max < 0 {
			return fmt.Sprintf("(re.++ ((_ re.^ %d) %s) (re.* %s))", re.Min, s, s), nil
		}
		return fmt.Sprintf("((_ re.loop %d %d) %s)", re.Min, re.Max, s), nil
	case syntax.OpConcat, syntax.OpAlternate:
		var parts []string
		for _, sub := range re.Sub {
			s, err := reToSMT(sub)
			if err != nil {
				return "", err
			}
			parts = append(parts, s)
		}
		op := "re.++"
		if re.Op == syntax.OpAlternate {
			op = "re.union"
		}
		if len(parts) == 1 {
			return parts[0], nil
		}
		return "(" + op + " " + strings.Join(parts, " ") + ")", nil
	}
	return "", fmt.Errorf("regular expression operator %v is outside the translated subset", re.Op)
}

func unicodeSimpleFold(r rune) rune { return unicode.SimpleFold(r) }

// anchoredToSMT: the expression must be anchored at both ends (^...$ at the top level); MatchString on anything else
// is a substring search, which the contracts do not use
func anchoredToSMT(pattern string) (string, error) {
	re, err := syntax.Parse(pattern, syntax.Perl)
	if err != nil {
		return "", err
	}
	subs := []*syntax.Regexp{re}
	if re.Op == syntax.OpConcat {
		subs = re.Sub
	}
	if len(subs) < 2 || subs[0].Op != syntax.OpBeginText || subs[len(subs)-1].Op != syntax.OpEndText {
		return "", fmt.Errorf("expression %q is not anchored with ^ and $ at the top level", pattern)
	}
	inner := subs[1 : len(subs)-1]
	var parts []string
	for _, s := range inner {
		t, err := reToSMT(s)
		if err != nil {
			return "", err
		}
		parts = append(parts, t)
	}
	switch len(parts) {
	case 0:
		return `(str.to_re "")`, nil
	case 1:
		return parts[0], nil
	}
	return "(re.++ " + strings.Join(parts, " ") + ")", nil
}

// regexLiteral finds `Name = regexp.MustCompile(<string literal>)` among the package-level declarations.
func (c *Ctx) regexLiteral(pkgPath, name string) (string, token.Pos, bool) {
	pp := c.ppkgs[pkgPath]
	if pp == nil {
		return "", 0, false
	}
	for _, f := range pp.Syntax {
		for _, d := range f.Decls {
			gd, ok := d.(*ast.GenDecl)
			if !ok || gd.Tok != token.VAR {
				continue
			}
			for _, sp := range gd.Specs {
				vs := sp.(*ast.ValueSpec)
				for i, n := range vs.Names {
					if n.Name != name || i >= len(vs.Values) {
						continue
					}
					call, ok := vs.Values[i].(*ast.CallExpr)
					if !ok || len(call.Args) != 1 {
						continue
					}
					if se, ok := call.Fun.(*ast.SelectorExpr); !ok || se.Sel.Name != "MustCompile" {
						continue
					}
					if s, ok := evalStringExpr(pp.Syntax, call.Args[0], 0); ok {
						return s, call.Pos(), true
					}
				}
			}
		}
	}
	return "", 0, false
}

// regexResults decides the `regexp` clauses tagged with the property.
func (c *Ctx) regexResults(prop, dir string, timeout int, skip func(id string) bool) []Result {
	var out []Result
	for _, k := range sortedKeys(c.contracts) {
		cf := c.contracts[k]
		for _, rs := range cf.Regexes {
			if !hasProp(rs.Props, prop) {
				continue
			}
			id := pkgDirName(k) + "." + rs.Name + "#regexp:accepts-exactly-the-stated-grammar"
			o := &Obl{ID: id, Fn: rs.Name, Kind: "regexp", Props: rs.Props}
			if skip != nil && skip(id) {
				continue
			}
			res := Result{Obl: o, Solver: "z3-new"}
			lit, _, ok := c.regexLiteral(k, rs.Name)
			if !ok {
				res.Status, res.Output = "unknown", "no package-level `"+rs.Name+" = regexp.MustCompile(\"...\")` found"
				out = append(out, res)
				continue
			}
			a, err1 := anchoredToSMT(lit)
			b, err2 := anchoredToSMT(rs.Pattern)
			if err1 != nil || err2 != nil {
				res.Status, res.Output = "unknown", fmt.Sprintf("code %q: %v; contract %q: %v", lit, err1, rs.Pattern, err2)
				out = append(out, res)
				continue
			}
			q := fmt.Sprintf("; obligation %s\n; code:     %s\n; contract: %s\n(declare-const s String)\n(assert (xor (str.in_re s %s) (str.in_re s %s)))\n(check-sat)\n(get-value (s))\n", id, lit, rs.Pattern, a, b)
			file := filepath.Join(dir, sanitizeFile(id)+".smt2")
			_ = os.WriteFile(file, []byte(q), 0o644)
			st, text, secs := runSolver("z3-new", file, max(timeout, 10), 0)
			res.Status, res.Output, res.Secs, res.File, res.Size = st, text, secs, file, len(q)
			res.Tried = []string{fmt.Sprintf("z3-new:%s:%.1fs", st, secs)}
			res.OK = st == "unsat"
			if st == "sat" {
				res.Output = "a string accepted by one expression and not the other: " + text + "\ncode: " + lit + "\ncontract: " + rs.Pattern
			}
			res.reCode, res.reSpec = lit, rs.Pattern
			out = append(out, res)
		}
	}
	return out
}

// evalStringExpr evaluates a string expression made of literals, + and package-level variables or constants that are
// themselves initialised by such expressions (the repository grammar is assembled from a named part).  An assignment to
// such a variable elsewhere is not looked for: package-level regular expression parts are treated as constants (stated).
func evalStringExpr(files []*ast.File, e ast.Expr, depth int) (string, bool) {
	if depth > 8 {
		return "", false
	}
	switch x := e.(type) {
	case *ast.BasicLit:
		if x.Kind == token.STRING {
			s, err := strconv.Unquote(x.Value)
			return s, err == nil
		}
	case *ast.ParenExpr:
		return evalStringExpr(files, x.X, depth+1)
	case *ast.BinaryExpr:
		if x.Op == token.ADD {
			a, ok1 := evalStringExpr(files, x.X, depth+1)
			b, ok2 := evalStringExpr(files, x.Y, depth+1)
			return a + b, ok1 && ok2
		}
	case *ast.Ident:
		for _, f := range files {
			for _, d := range f.Decls {
				gd, ok := d.(*ast.GenDecl)
				if !ok || (gd.Tok != token.VAR && gd.Tok != token.CONST) {
					continue
				}
				for _, sp := range gd.Specs {
					vs := sp.(*ast.ValueSpec)
					for i, n := range vs.Names {
						if n.Name == x.Name && i < len(vs.Values) {
							return evalStringExpr(files, vs.Values[i], depth+1)
						}
					}
				}
			}
		}
	}
	return "", false
}

// replayRegexp runs the solver's string through Go's own regexp package, compiled from the expression in the code and
// from the pattern of the contract: the real MatchString calls disagree on it, or the model is not a counterexample.
func replayRegexp(r *Result) map[string]any {
	m := regexp.MustCompile(`\(\(s "((?:[^"]|"")*)"\)\)`).FindStringSubmatch(r.Output)
	if m == nil {
		return nil
	}
	str := strings.ReplaceAll(m[1], `""`, `"`)
	str = regexp.MustCompile(`\\u\{([0-9a-fA-F]+)\}`).ReplaceAllStringFunc(str, func(e string) string {
		n, _ := strconv.ParseInt(e[3:len(e)-1], 16, 32)
		return string(rune(n))
	})
	a, err1 := regexp.Compile(r.reCode)
	b, err2 := regexp.Compile(r.reSpec)
	if err1 != nil || err2 != nil {
		return nil
	}
	ma, mb := a.MatchString(str), b.MatchString(str)
	return map[string]any{
		"input":               strconv.QuoteToASCII(str),
		"code_expression":     r.reCode,
		"contract_pattern":    r.reSpec,
		"code_matches":        ma,
		"contract_matches":    mb,
		"failing_input_found": ma != mb,
		"how":                 "regexp.MustCompile(<expression in the code>).MatchString(input) evaluated in-process with the standard library",
	}
}

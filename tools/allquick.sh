#!/bin/bash
# runs the quick check of every claimed property on /repo's working tree, one after the other; prints one line per property
cd /verif
for p in $(python3 -c "import json;print(' '.join(c['property_id'] for c in json.load(open('MANIFEST.json'))['checks']))"); do
  s=$(date +%s)
  ./check $p quick > /tmp/q_$p.log 2>&1; rc=$?
  e=$(date +%s)
  echo "$p rc=$rc $((e-s))s $(tail -1 /tmp/q_$p.log)"
done
echo ALLQUICKDONE

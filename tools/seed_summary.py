#!/usr/bin/env python3
"""Regenerates /verif/seeded/SUMMARY.md from meta.json and detection.txt of every seeded change."""
import json, os, glob
rows=[]
for d in sorted(glob.glob('/verif/seeded/*/')):
    sid=os.path.basename(d.rstrip('/'))
    if not os.path.exists(d+'meta.json'): continue
    m=json.load(open(d+'meta.json'))
    det=open(d+'detection.txt').read().strip().split('\n') if os.path.exists(d+'detection.txt') else []
    viol=[l for l in det if l.startswith('VIOLATION')]
    obl=[]
    for l in viol:
        i=l.find('obligation=')
        if i>=0:
            obl.append(l[i+len('obligation='):].replace(' no-failing-input-found','')[:110])
    if m.get('status','').startswith('obsolete'):
        res='obsolete (see meta.json): no longer breaks the property after a repair'
    elif not viol and det and 'not claimed' in det[0]:
        res='property not claimed: no check'
    elif viol:
        res='**caught**: '+'; '.join('`%s`'%o for o in obl[:2])+(' …' if len(obl)>2 else '')
    else:
        res='NOT caught'
    if m.get('first_result'):
        res+=' — '+m['first_result']
    what=(m.get('what_was_changed') or '')[:170].replace('\n',' ').replace('|','/')
    rows.append((sid,m['property_id'],what,res))
out=['# Seeded property-breaking changes: what the checks say','',
'Each change was produced by a sub-agent from the property text alone, confirmed in a scratch worktree (confirm.txt), applied to /repo with `git apply`, checked with the quick check of its property, and undone (detection.txt).  Ids a, b: first round; c, d: second round (after the repairs).','',
'| id | property | change | result of `./check <property> quick` |','|---|---|---|---|']
for r in rows: out.append('| %s | %s | %s | %s |'%r)
n=len(rows); caught=sum(1 for r in rows if r[3].startswith('**caught'))
out+=['',f'{caught} of {n} caught; the rest are obsolete or belong to properties without a check.']
open('/verif/seeded/SUMMARY.md','w').write('\n'.join(out)+'\n')
print(f'{caught}/{n} caught')

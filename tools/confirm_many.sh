#!/bin/bash
# confirm_many.sh <seed id>...: runs tools/confirm_seed.sh for seeds whose directory holds patch.diff, demo_test.go.txt and the
# agent's meta (meta.agent.json or meta.json with demo_pkg_dir/demo_run or demo.place_in_package_dir/demo.run)
cd /verif
for id in "$@"; do
  read pkg run < <(python3 - "$id" <<'PY'
import json,sys,os,re
d='/verif/seeded/'+sys.argv[1]
m=json.load(open(d+'/meta.agent.json')) if os.path.exists(d+'/meta.agent.json') else json.load(open(d+'/meta.json'))
pkg=m.get('demo_pkg_dir') or m.get('demo',{}).get('place_in_package_dir','.')
run=m.get('demo_run') or re.search(r"-run '([^']+)'", m.get('demo',{}).get('run','')).group(1)
print(pkg, run.replace('-run ','').strip("'\" "))
PY
)
  tools/confirm_seed.sh $id $PWD/seeded/$id/patch.diff $PWD/seeded/$id/demo_test.go.txt "$pkg" "$run" $PWD/seeded/$id > /tmp/confirm_$id.log 2>&1
  tail -3 seeded/$id/confirm.txt | tr '\n' ' '; echo
done

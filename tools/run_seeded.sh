#!/bin/bash
# run_seeded.sh [id...]: applies each /verif/seeded/<id>/patch.diff to /repo, runs the quick check of its property
# (meta.json: property_id), records the outcome in /verif/seeded/<id>/detection.txt and undoes the patch.
cd /verif
ids="$@"; [ -z "$ids" ] && ids=$(ls seeded)
if [ -n "$(git -C /repo status --porcelain)" ]; then echo "/repo is not clean"; exit 2; fi
for id in $ids; do
  d=seeded/$id
  prop=$(python3 -c "import json;print(json.load(open('$d/meta.json'))['property_id'])")
  if ! grep -q "\"property_id\": \"$prop\"" MANIFEST.json || ! python3 -c "
import json,sys
m=json.load(open('MANIFEST.json')); sys.exit(0 if any(c['property_id']=='$prop' for c in m['checks']) else 1)"; then
    echo "$id: property $prop is not claimed, no check to run" | tee $d/detection.txt; continue
  fi
  git -C /repo apply $PWD/$d/patch.diff || { echo "$id: patch does not apply" | tee $d/detection.txt; continue; }
  ./check $prop quick > /tmp/run_seeded_$id.log 2>&1; rc=$?
  git -C /repo checkout -- .
  { echo "check: ./check $prop quick (patch applied to /repo with git apply, undone afterwards); exit code $rc";
    grep -a "^VIOLATION" /tmp/run_seeded_$id.log | sed 's/replay=[^ ]*//' | head -12;
    grep -a "REPLAY-FAIL\|failing input" /tmp/run_seeded_$id.log | head -3;
    tail -1 /tmp/run_seeded_$id.log; } > $d/detection.txt
  echo "$id: rc=$rc $(grep -ac '^VIOLATION' /tmp/run_seeded_$id.log) violation lines"
done
python3 /verif/tools/seed_summary.py

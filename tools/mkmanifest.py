#!/usr/bin/env python3
"""Writes /verif/MANIFEST.json from the table below (the single place where claims are edited)."""
import json, subprocess

TECH = "contract-based deductive verification (own VC generator over go/ssa, //@ contracts on the real code, z3)"
COMMON_TRUST = ("Trusted: go/ssa front end, govc's SSA->SMT semantics and effects table for the standard library (listed in the evidence), z3; "
                "mathematical integers; strings as an uninterpreted sort with length/order/concatenation; sequential execution of one call at a time. ")
STORE_ASSUMED = ("The handlers are verified against the interface contracts of store.Store/Repo/BlobCreator in internal/store/verif_contracts.go; "
                 "these are assumed for the dir and mem implementations unless the evidence lists the implementation as a function under contract. ")

claims = {
 "C18": dict(
  text="Contract-based deductive verification of the real code: wfIndex (tag unique, one response per subject, a plain entry is the only entry of its digest, entries own their maps) is proved to be re-established by AddDesc, RmDesc and AddChildren for every index and argument, with two-state postconditions over the abstract view (tag->digest, subject->digest, digests, children: last-writer-wins, other tags/subjects kept, nothing invented, digest kept on untag, no reference left on digest removal); GetDesc/GetByAnnotation are exact; Copy/Descriptor.Copy/Platform.Copy return fresh, equal structures (independence). Every loop carries an inductive invariant; obligations are generated from go/ssa of the current tree and discharged by z3. 'Every finite sequence' follows by induction over the sequence (stated, not mechanised).",
  ref="DESIGN.md 5 (C18), 11",
  note=COMMON_TRUST + "Assumed callback contract for IndexOpt (verified for its only implementation IndexWithChildren$1); the children option is covered for wf and the kept/not-invented clauses only; element-wise equality of URLs/Data/Platform contents is proved in Descriptor.Copy but not restated for whole lists. Open (not claimed, listed in the evidence): the precondition wfIndex at the call sites in internal/store (the index kept by a repository object is not yet under an object invariant) and in referrerDelete (decoded content)."),
 "C20": dict(
  text="Sequential contracts on the generic bodies of cache.Cache[k,v] (k, v as uninterpreted sorts): for every cache state satisfying the representation invariant and every argument, Delete, DeleteAll, pruneAge and pruneCount remove a key only after its cleanup callback returned nil during that call (ghost per-key success/failure counters), keep every key whose cleanup failed, pruneAge only removes entries older than minAge (relative to a monotone ghost clock), pruneCount leaves at most maxCount entries when no cleanup fails, Get/Set store/return the value and refresh the use time, pre/post hooks are paired, the mutex is released around the callback in Delete/DeleteAll, held during pruning and released at every return, and the expiry timer is armed whenever entries exist (ghost armed flag). All loops (map ranges with a ghost visited set) carry inductive invariants.",
  ref="DESIGN.md 5 (C20), 11",
  note=COMMON_TRUST + "Not covered: interleavings (other goroutines while the mutex is released around a callback, timer goroutines, blocking callbacks), LRU order of pruneCount (sort.Sort is modelled as a permutation only), the goroutine spawned by Set. Assumed: callback contracts (the cleanup does not re-enter the cache), time as a monotone integer clock, map iteration visits each key once. Open (not claimed): the cache invariant at the call sites in internal/store."),
 "C03": dict(
  text="Tag semantics are decided where they are implemented: (1) types.Index (shared with C18): a tag names at most one entry, AddDesc is last-writer-wins and keeps all other tags, RmDesc by tag keeps the digest and the other tags, RmDesc by digest removes every entry of the digest. (2) the tag listing handler tagList$1: for every index, every n (absent, 0, negative, oversized) and every last, the slice that is encoded is exactly the tags of the index above `last`, sorted strictly (hence duplicate free), complete when no limit cuts it, a prefix of at most n otherwise, with the Link header only when cut; no index expression can go out of range. (3) manifestDelete$1: a tag delete removes exactly one index entry by tag and keeps the referrers response; a digest delete goes through RmDesc by digest. Proved for all inputs with loop invariants over the real code.",
  ref="DESIGN.md 5 (C03), 11",
  note=COMMON_TRUST + STORE_ASSUMED + "sort.Strings is modelled by its specification (sorted permutation). 'Following the Link chain visits every tag exactly once' follows from prefix+strictly-above-last by induction over pages (stated, not mechanised). Not covered: persistence of the index by the store implementations."),
 "C04": dict(
  text="manifestPut$1 and its helpers are verified for every request: 201 is only reached on paths where the reference is a tag of the grammar or equals the digest computed from the body, the media type is one of the supported image/index types and equals the body's own mediaType field when that is present, the body decoded, and every referenced config/layer/child was found by a store lookup in this repository (call-site assertions on every path to WriteHeader(201)); every 4xx path leaves the ghost mutation counter of the store unchanged (no IndexInsert/BlobCreate/Delete succeeded before the refusal); read-only refusals likewise.",
  ref="DESIGN.md 5 (C04), 11",
  note=COMMON_TRUST + STORE_ASSUMED + "'Observable state unchanged' is stated as: no state-changing store call succeeded (ghost counter), not as equality of all later responses. JSON decoding is modelled as an arbitrary well-formed result of the target type."),
 "C07": dict(
  text="Referrers handlers verified for every request and index: referrerAdd/referrerDelete maintain the response of a subject by digest only (no tag semantics can drop or strip an entry), referrerGet$1 answers from the stored response, applies the artifactType filter exactly and announces it, unknown subjects give an empty index with 200, referrerSplit only drops an entry when it alone exceeds the limit and every page respects the limit; a tag delete never touches the response (manifestDelete$1).",
  ref="DESIGN.md 5 (C07), 11",
  note=COMMON_TRUST + STORE_ASSUMED + "Open (not claimed): referrerDelete's use of RmDesc on a response decoded from a stored blob (stored content is not modelled, so its well-formedness is unknown). Not covered: the union of pages along the Link chain equals the list (per-page facts only), conversion of fallback tags (C17)."),
 "C08": dict(
  text="Upload handlers verified for every request against a ghost model of the session (bytes written, gone flag, owning repository): a PATCH or PUT writes only after the Content-Range start and the state token equal the session size, a refused chunk makes no Write/Close/Cancel call, the status query reports the session size, PUT closes only after Verify succeeded and cancels otherwise, a finished or cancelled session is never used again in the request, sessions are looked up in the repository of the URL only. The cache behind the sessions (shared with C20) never drops a session without its cleanup and keeps at most the configured number.",
  ref="DESIGN.md 5 (C08), 11",
  note=COMMON_TRUST + STORE_ASSUMED + "Not covered: the session objects of dir.go/mem.go themselves (temp file removal, concatenation of chunks in the file), expiry racing with requests. Open (not claimed): the cache invariant at the store's call sites."),
 "C15": dict(
  text="No-panic sweep plus status discipline: for every function of packages olareg, types, config, internal/cache and internal/store an obligation is generated, without annotation, at every index, slice, nil dereference, map write, type assertion and division; for the HTTP handlers all of them are discharged for every request (this is where the n=0/negative panic of tagList was found). Every handler has the postcondition 'status >= 500 implies a store fault', the status set it may answer with, and ServeHTTP routes only names matching the repository grammar to the store (precondition of RepoGet). ErrInfo* constructors carry the registered code (checked per constructor).",
  ref="DESIGN.md 5 (C15), 11",
  note=COMMON_TRUST + STORE_ASSUMED + "Open (not claimed, listed in the evidence): sweep obligations in internal/store and the constructors that need object invariants not yet written; manifestGet$1's 500 for an undecodable digest inside a stored index. Not covered: panics inside the standard library, JSON shape of error bodies beyond the code field."),
 "C16": dict(
  text="Every call of Store.RepoGet in the handlers is proved to pass a name matching the repository grammar (this found the unvalidated `from` of blob mount); matchV2/ServeHTTP are verified to hand each handler the path segments of its own pattern; sessions and blobs are looked up through the Repo value obtained for the URL's repository only; a mount succeeds only after BlobGet on the source repository succeeded.",
  ref="DESIGN.md 5 (C16), 11",
  note=COMMON_TRUST + STORE_ASSUMED + "Store level: at every call into package os in dir.go/mem.go the path argument is proved to lie below the directory of the repository object (below the root in RepoGet), where 'below' is produced by filepath.Join with elements proved free of .. (literals inspected, repository names by the grammar axiom, digest parts only after Validate, directory entry names) and by os.CreateTemp; functions outside dirRepo/dirRepoUpload/memRepo/dir.RepoGet are proved to make no path-taking os call at all. Assumed: the axiom that names matching the repository grammar contain no .. element; filepath.Join/CreateTemp semantics as just stated; object invariants of upload objects (filename below the repository path). Not covered: symlinks inside the root, nested-name collisions with reserved file names (a/blobs), isolation of in-memory maps. regexp.MatchString is an uninterpreted predicate per compiled expression."),
 "C14": dict(
  text="Handler level: with storage read-only every mutating handler answers 403 and leaves the store's ghost mutation counter unchanged; with push disabled PUT/POST/PATCH, and with delete disabled DELETE, are refused with a 4xx by ServeHTTP's routing and change nothing; GET/HEAD never change the mutation counter. Proved for every request and configuration.",
  ref="DESIGN.md 5 (C14), 11",
  note=COMMON_TRUST + STORE_ASSUMED + "Store level: a ghost counter fswrites() is incremented by every call into package os that is not on a read-only list (Stat, Open, ReadFile, ReadDir, ...; writes through a handle are attributed to the call that opened it for writing). Every function of internal/store and internal/cache has the postcondition (and loop invariant) 'no write permission implies fswrites unchanged'; every function of mem.go the unconditional 'fswrites unchanged'; dir.go functions that write without testing the switch (gc, repoInit, the collector goroutine) require the switch to be off and every caller, including the go statement that spawns the collector, is proved to establish it. Assumed object invariants (listed in the evidence): objects of a store carry the store's configuration; upload objects of the directory store exist only when it is writable (asserted where they are built). One ghost constant per server for the switch and the write permission, fixed at NewDir/NewMem. Not covered: files written by other processes, effects of goroutines on each other."),
 "C01": dict(
  text="Reduced claim, decided per function: (1) GET handlers (blobGet$1, manifestGet$1): at the call of http.ServeContent the reader being served was handed out by the store for exactly the digest that the Docker-Content-Digest header reports (ghost field of the reader), also after content negotiation replaced the descriptor by a child, and for a request by digest that digest is the one in the URL. (2) push handlers: a PUT closes the session only after Verify(digest parameter) succeeded, and a manifest is stored under the digest computed from the received bytes (reference-is-tag-or-body-digest). (3) upload objects of both stores: the representation invariant 'the writer is the tee of the file/buffer and of the hash of the current digester' is established where the object is built and kept by every method, so no accepted byte bypasses the hash and the digester cannot be swapped without the writer.",
  ref="DESIGN.md 5 (C01), 11",
  note=COMMON_TRUST + STORE_ASSUMED + "Not proved: that the digest reported by a digester is the hash of the bytes fed to it (go-digest, crypto), that Close stores the file under exactly that digest when no digest was pinned (read off the code: the blob name is built from d.Digest()), rescans after an algorithm change (Seek/Copy are not modelled), partial writes after an I/O fault. Content of stored blobs is not modelled, so 'never retrievable under a wrong digest' is reduced to the three clauses above."),
 "C02": dict(
  text="Reduced claim; the clauses that contracts can state without a model of stored bytes. (1) manifestPut$1: a body longer than the configured limit is refused with 413 on every path, also when the length is unknown, so nothing is ever stored in a shortened form (ghost 'truncated' flag of the limited reader, asserted false at the 201). (2) GET handlers: the reader that is served is the one the store handed out for the acknowledged digest, the Content-Type reported is the media type recorded with the entry, the digest header is that digest (shared with C01). (3) Re-registration on load: indexIngest leaves the scan of nested indexes only with an empty work list, so manifests reachable through nested indexes stay addressable by digest after a restart. (4) The tag and digest lookups that GET relies on are exact (GetDesc, shared with C18).",
  ref="DESIGN.md 5 (C02), 11",
  note=COMMON_TRUST + STORE_ASSUMED + "NOT decided: that the bytes read back equal the bytes pushed (no content model: stored bytes, Content-Length and range slices are the store's files and net/http's ServeContent, both outside the contracts); 'until deleted or collected' is covered only through C05's rules."),
 "C09": dict(
  text="Reduced claim: ordering clauses, not a crash enumeration. (1) Handlers: an index entry is inserted only after the content it points to was stored (precondition blobReady of IndexInsert at every call), and 201 is written only after the last store call succeeded. (2) dirRepo.indexSave: index.json is replaced only by renaming a temp file of the same directory into place, and the encoder wrote into that very file (not into a buffer in front of it) before the rename. (3) dirRepo.repoInit: a layout file that is missing, unreadable or invalid - e.g. torn by a crash during its in-place write - is written again before the repository counts as existing. (4) dirRepoUpload.Close: a blob file appears only by renaming the closed temp file, after the pinned digest was checked.",
  ref="DESIGN.md 5 (C09), 11",
  note=COMMON_TRUST + STORE_ASSUMED + "NOT decided: the state after a crash between two arbitrary file system operations (that needs enumeration of crash points over a file system model, a different technique family), fsync/durability, recovery of interrupted uploads. rename is assumed atomic; Encode is assumed to have written everything when it returns nil."),
 "C10": dict(
  text="Reduced claim, clauses about what the directory store writes and where: blob files are named blobs/<alg>/<hex> of the digest the digester reports (dirRepoUpload.Close), every path stays below the repository directory (with C16), index.json is the encoding of the in-memory index at the time of the save and what a collection saves is the index it computed (dirRepo.gc), a repository only counts as existing with a valid oci-layout (repoInit), and on load every nested index is re-registered (indexIngest work list).",
  ref="DESIGN.md 5 (C10), 11",
  note=COMMON_TRUST + STORE_ASSUMED + "NOT decided: equality of the directory content with the API-visible state at every quiescent point (needs a ghost file system, not built), equality of dir and mem stores on replay, recorded sizes. The known defect D12 (removal of an emptied repository can leave blobs/ behind while index.json and oci-layout are gone) is not decided by this check and not repaired."),
 "C05": dict(
  text="Two layers, labelled separately in the evidence. (1) Proved by contract on the real code, for all inputs: step invariants of repoGarbageCollect (every child of a walked index is queued; config and layers of a walked image are marked; a blob or index entry is only removed when it is unmarked, respectively has no blob), and the age rules that make 'recent' mean 'recently acknowledged': memRepoUpload.Close stores the blob with an age not older than the call, BlobCreate refreshes the age of a blob it reports as existing (both stores). (2) Bounded stand-in for what those contracts do not decide - that the marked set is closed under the retention rules: the real collector is run on every repository over a small universe (2 configs, 2 layers, an image, an image listing the first as a layer, an index, an artifact whose subject is a manifest or a layer; every top-level state, 2 entry orders, 8 policies; memory store in quick, both stores in thorough) and compared with the least fixed point of the rules of the statement. The bounded part found the two closure defects (walked vs. seen; referrers of layers), now repaired.",
  ref="DESIGN.md 5 (C05), 11",
  note=COMMON_TRUST + "The closure argument is NOT proved: it is decided by the bounded stand-in only, up to the stated universe (labelled bounded, not counted as proved). Open (listed): layers-marked on the path that queues a referrers response (needs a no-aliasing fact about decoded slices), wfIndex at the collector's RmDesc calls. Not covered: the grace period with real clocks in the dir store (mtime of renamed temp files), concurrent pushes during a collection."),
 "C06": dict(
  text="(1) Proved by contract: inside the loop over the repositories of dir.gc and mem.gc the only return is the reaction to the stop signal, so a repository whose collection fails cannot end the pass (this was violated and is repaired). (2) Bounded stand-in (same universe as C05, labelled bounded): after one pass with the grace period off an unreferenced blob is gone, no index entry is left without a blob, untagged unreferenced manifests are gone when untagged collection is on, and a second pass changes nothing.",
  ref="DESIGN.md 5 (C06), 11",
  note=COMMON_TRUST + "Everything except the not-starved clause is decided by the bounded stand-in only (not counted as proved). Not covered: removal of empty repositories (dirRepo.gc's directory list), repositories removed behind the store's back, timing of the ticker."),
 "C17": dict(
  text="Reduced claim, per function: referrerListDedup returns the list without duplicates, keeping one entry per digest (loop invariant); ManifestReferrerDescriptor takes size, artifact type (with the config fallback), annotations and subject from the manifest bytes, not from what the caller passed in (this is what lets indexValidReferrer detect a stale fallback index); indexIngest (a) never goes through a public, locking method of the repository while it may hold the lock (forbid clauses; the violation deadlocked the directory store and is repaired), (b) never fails because the regenerated response is already stored (repeatable; repaired), (c) leaves the scan of nested indexes only when the work list is empty.",
  ref="DESIGN.md 5 (C17), 11",
  note=COMMON_TRUST + STORE_ASSUMED + "Not proved: that exactly the referrers of the fallback indexes end up in the responses grouped by subject, that every other tag is kept (AddDesc/RmDesc are proved to keep other tags, but indexIngest's loops have no invariants), that the converted flag is set, interruption at an arbitrary file system step."),
 "C19": dict(
  text="Config.SetDefaults is proved against the documented defaults table for every configuration: a set switch keeps its pointer and no existing bool is written, an unset one gets a fresh bool with the documented default, numeric fields keep non-zero (positive for the manifest limit) values and get the default otherwise, nothing else changes. newServeCmd registers every flag name for its own option with the documented default (ghost flag registry), serveOpts.run hands every option to the documented configuration field (call-site assertion at olareg.New). The rate limit in ServeHTTP counts exactly, refuses exactly when the count exceeds the limit and never without a limit; push/delete switches route as documented (with C14).",
  ref="DESIGN.md 5 (C19), 11",
  note=COMMON_TRUST + "pflag's XxxVar is modelled as: store the default through the pointer, record name->pointer. Not covered: signal handling and shutdown, TLS, store type selection inside olareg.New, 'no other effect' beyond the stated frames, other addresses' rate entries."),
}

not_applicable = {
 "C11": "whole-history property over concurrent schedules (linearizability); contracts on single calls cannot express or decide it, and the technique family is fixed (DESIGN.md 6)",
 "C12": "liveness under all interleavings; out of reach of per-call contracts. The sequential self-deadlock obligations (re-locking a held mutex) that govc generates are recorded in the lock file under C12 but decide only a fragment, so nothing is claimed (DESIGN.md 6)",
 "C13": "data-race freedom is a property of schedules under the Go memory model; no contract within reach expresses it (DESIGN.md 6)",
}

def main():
    checks = []
    for pid in sorted(claims):
        c = claims[pid]
        checks.append({
            "property_id": pid,
            "quick_cmd": f"./check {pid} quick",
            "thorough_cmd": f"./check {pid} thorough",
            "evidence_file": f"/verif/evidence/{pid}.json",
            "replay_cmd_template": "./check replay {path}",
            "engine": "govc",
            "level_claimed": {"category": "proof", "text": c["text"], "design_ref": c["ref"]},
            "level_note": c["note"],
            "technique": TECH,
        })
    commits = subprocess.run(["git", "-C", "/repo", "log", "--format=%h %s"], capture_output=True, text=True).stdout.splitlines()
    hooks = [l.split()[0] for l in commits if l.split(" ", 1)[1].startswith("verif:")]
    hooks.reverse()
    m = {
        "version": 1,
        "setup_cmd": "./setup.sh",
        "hooks": {
            "guard": "verif",
            "enable": "go build -tags verif: adds only comment-only files <pkg>/verif_contracts.go (contracts read by govc); mirror under /verif/contracts",
            "baseline_off_cmd": "cd /repo && go test -mod=mod -vet=off -count=1 -timeout 25m ./...",
            "source_commits": hooks,
            "add_only": True,
        },
        "engines": [{
            "name": "govc", "path": "/verif/govc", "serves_properties": sorted(claims),
            "kind_free_text": "own VC generator over go/ssa (naive form) + contracts in //@ comment files; obligations discharged by z3 5.1 / z3 4.8.12 / cvc5",
        }],
        "checks": checks,
        "notes": "claims are edited in tools/mkmanifest.py; every check is `./check <id> quick|thorough` = bin/govc check against /repo's working tree and obligations.lock; known findings in KNOWN_FINDINGS.txt",
        "not_applicable": [{"property_id": k, "reason": v} for k, v in sorted(not_applicable.items()) if k not in claims],
    }
    allp = {f"C{i:02d}" for i in range(1, 21)}
    missing = allp - set(claims) - set(not_applicable)
    assert not missing, missing
    json.dump(m, open("/verif/MANIFEST.json", "w"), indent=1)
    print("claimed:", sorted(claims), "n/a:", sorted(set(not_applicable) - set(claims)))

main()

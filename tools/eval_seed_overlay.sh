#!/bin/bash
# eval_seed_overlay.sh <seed id>...
# Runs, for each /verif/seeded/<id>/patch.diff, the quick check of its property on the CHANGED sources without touching /repo:
# the patch goes through the loader overlay (the machinery of `./check selftest`: same obligations, lock, known findings and
# bounded harness as `./check <property> quick`, no replay).  Writes seeded/<id>/detection.txt and refreshes SUMMARY.md.
cd /verif
export GOFLAGS=-mod=mod GOPROXY=off GOSUMDB=off GOTOOLCHAIN=local
vr=$(mktemp -d /tmp/vroot.XXXXXX)
mkdir -p $vr/selftest/mutants $vr/work $vr/replays $vr/evidence
for x in contracts obligations.lock locals.lock KNOWN_FINDINGS.txt replay bin govc; do ln -s /verif/$x $vr/$x; done
for id in "$@"; do
  prop=$(python3 -c "import json;print(json.load(open('seeded/$id/meta.json'))['property_id'])")
  cp seeded/$id/patch.diff $vr/selftest/mutants/${prop}_seedid_${id}.diff
done
VERIF_ROOT=$vr bin/govc selftest > $vr/out.txt 2>&1
python3 - "$vr/out.txt" <<'PY'
import re,sys
for l in open(sys.argv[1]).read().splitlines():
    m=re.match(r'(killed|SURVIVED|ERROR)\s+(C\d\d)_seedid_(\w+)\.diff:?\s*(.*)',l)
    if not m: continue
    st,prop,sid,rest=m.groups()
    out=[f"check: the quick check of {prop} on the changed sources (patch applied through the loader overlay by tools/eval_seed_overlay.sh = the machinery of `./check selftest`: the same obligations, lock and bounded harness as `./check {prop} quick`; /repo itself untouched, no replay)"]
    if st=='killed':
        for ob in rest.split('; '):
            ob=re.sub(r' \((unknown|sat|timeout|no longer generated)\)$','',ob.strip())
            if ob: out.append(f"VIOLATION property={prop} obligation={ob}")
    else:
        out.append(f"{st}: no obligation of {prop} fails {rest}")
    open(f'/verif/seeded/{sid}/detection.txt','w').write('\n'.join(out)+'\n')
    print(sid,st,rest[:160])
PY
rm -rf $vr
python3 tools/seed_summary.py

#!/bin/bash
# reconfirm_all.sh [id...]: re-runs tools/confirm_seed.sh for seeds under /verif/seeded against the current /repo HEAD
# (3 at a time), using patch.diff / demo_test.go.txt / meta.json of each directory.
cd /verif/seeded
ids="$@"; [ -z "$ids" ] && ids=$(ls -d */ | tr -d /)
one() {
  id=$1; d=/verif/seeded/$id
  set -- $(python3 - "$d/meta.json" <<'PY'
import json,re,sys
m=json.load(open(sys.argv[1])); dm=m.get('demo',{})
c=dm.get('run','') or ''
r=re.search(r"-run[ =]'?\^?([A-Za-z0-9_]+)", c)
print(dm.get('place_in_package_dir') or '.', r.group(1) if r else 'NONE')
PY
)
  /verif/tools/confirm_seed.sh $id $d/patch.diff $d/demo_test.go.txt $1 $2 $d > /tmp/reconfirm_$id.log 2>&1
  rm -f $d/suite_with_change.log
}
n=0
for id in $ids; do
  one $id &
  n=$((n+1)); if [ $((n%3)) -eq 0 ]; then wait; fi
done
wait
for id in $ids; do echo "== $id: $(grep -v '^seed ' /verif/seeded/$id/confirm.txt | tr '\n' ';')"; done

#!/bin/bash
# confirm_seed.sh <name> <patch.diff> <demo_test.go.txt> <pkgdir> <demo -run regexp> <outdir>
# Confirms a seeded property-breaking change in a scratch worktree of /repo's HEAD (never in /repo itself):
#   1. the patch applies and the tree builds, 2. the existing suite passes with the patch,
#   3. the demonstration test fails with the patch, 4. and passes without it.
# Writes <outdir>/confirm.txt and removes the worktree.
set -u
name=$1; patch=$2; demo=$3; pkg=$4; run=$5; out=$6
export GOFLAGS=-mod=mod GOPROXY=off GOSUMDB=off GOTOOLCHAIN=local
wt=/tmp/confirm/$name
rm -rf "$wt"; mkdir -p /tmp/confirm "$out"
git -C /repo worktree add -q --detach "$wt" HEAD || exit 2
log=$out/confirm.txt
{
echo "seed $name confirmed against /repo HEAD $(git -C /repo rev-parse --short HEAD) on $(date -u +%FT%TZ)"
cd "$wt"
if git apply "$patch"; then echo "patch: applies"; else echo "patch: DOES NOT APPLY"; fi
if go build ./... ; then echo "build: ok"; else echo "build: FAILS"; fi
if go test -vet=off -count=1 -timeout 20m ./... > "$out/suite_with_change.log" 2>&1; then echo "suite with change: passes"; else
  # the repository has one known timing-dependent test; retry once
  if go test -vet=off -count=1 -timeout 20m ./... > "$out/suite_with_change.log" 2>&1; then echo "suite with change: passes (second run)"; else echo "suite with change: FAILS"; fi
fi
cp "$demo" "$wt/$pkg/zz_seed_demo_test.go"
if go test -vet=off -count=1 -timeout 5m -run "$run" "./$pkg" > "$out/demo_with_change.log" 2>&1; then echo "demo with change: passes (NOT a demonstration)"; else echo "demo with change: fails (property broken)"; fi
git apply -R "$patch"
if go test -vet=off -count=1 -timeout 5m -run "$run" "./$pkg" > "$out/demo_without_change.log" 2>&1; then echo "demo without change: passes"; else echo "demo without change: FAILS"; fi
} > "$log" 2>&1
cd /
git -C /repo worktree remove --force "$wt"
cat "$log"

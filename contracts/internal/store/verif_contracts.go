//go:build verif

// Contracts for package store, read by /verif/govc (comment-only file: no declarations).
package store

//@ func referrerListDedup(rl []types.Descriptor) (res []types.Descriptor)
//@   props C17
//@   ensures [nil-to-nil] rl == nil ==> res == nil
//@   ensures [distinct] forall a: int, b: int :: 0 <= a && a < b && b < len(res) ==> res[a].Digest != res[b].Digest
//@   ensures [all-kept] forall a: int :: 0 <= a && a < len(rl) ==>
//@             (exists b: int :: 0 <= b && b < len(res) && res[b].Digest == old(rl[a]).Digest)
//@   ensures [nothing-invented] forall b: int :: 0 <= b && b < len(res) ==>
//@             (exists a: int :: 0 <= a && a < len(rl) && res[b] == old(rl[a]))
//@   loop 1: invariant [range] 0 <= i && i <= len(rl) && len(rl) <= len(old(rl)) && arr(rl) == arr(old(rl)) && off(rl) == off(old(rl)) && seen != nil
//@   loop 1: invariant [seen-prefix] forall k: int :: 0 <= k && k < i ==> seen[rl[k].Digest]
//@   loop 1: invariant [seen-only-prefix] forall d: digest.Digest :: seen[d] ==> (exists k: int :: 0 <= k && k < i && rl[k].Digest == d)
//@   loop 1: invariant [distinct-prefix] forall a: int, b: int :: 0 <= a && a < b && b < i ==> rl[a].Digest != rl[b].Digest
//@   loop 1: invariant [all-kept] forall a: int :: 0 <= a && a < len(old(rl)) ==>
//@             (exists b: int :: 0 <= b && b < len(rl) && rl[b].Digest == old(rl[a]).Digest)
//@   loop 1: invariant [nothing-invented] forall b: int :: 0 <= b && b < len(rl) ==>
//@             (exists a: int :: 0 <= a && a < len(old(rl)) && rl[b] == old(rl[a]))
//@   loop 1: decreases len(rl) - i

package config

// Replay harness for package config (injected with `go test -overlay`; never written into /repo).
// Enumerates configurations (each switch unset / false / true, each number zero / negative / positive)
// and compares SetDefaults with the documented defaults table of C19.
// Output: "REPLAY-FAIL: ..." for the first failing configuration, else "REPLAY-NONE ...".

import (
	"fmt"
	"testing"
	"time"
)

func vrBool(i int) *bool {
	switch i {
	case 1:
		b := false
		return &b
	case 2:
		b := true
		return &b
	}
	return nil
}

func vrCheckBool(name string, in int, got *bool, def bool) string {
	if got == nil {
		return name + " is nil after SetDefaults"
	}
	want := def
	if in == 1 {
		want = false
	} else if in == 2 {
		want = true
	}
	if *got != want {
		return fmt.Sprintf("%s: input %v, got %v, want %v", name, []string{"unset", "false", "true"}[in], *got, want)
	}
	return ""
}

func TestVerifReplay(t *testing.T) {
	nums := []int64{0, -1, 7}
	count := 0
	for bi := 0; bi < 3; bi++ {
		for field := 0; field < 9; field++ {
			for _, n := range nums {
				for _, st := range []Store{StoreUndef, StoreMem, StoreDir} {
					for _, root := range []string{"", "x"} {
						count++
						c := Config{}
						ins := make([]int, 9)
						// all switches take bi except `field`, which takes (bi+1)%3, to catch crossed wiring
						for i := range ins {
							ins[i] = bi
						}
						ins[field] = (bi + 1) % 3
						c.API.DeleteEnabled = vrBool(ins[0])
						c.API.PushEnabled = vrBool(ins[1])
						c.API.Blob.DeleteEnabled = vrBool(ins[2])
						c.API.Referrer.Enabled = vrBool(ins[3])
						c.Storage.ReadOnly = vrBool(ins[4])
						c.Storage.GC.Untagged = vrBool(ins[5])
						c.Storage.GC.EmptyRepo = vrBool(ins[6])
						c.Storage.GC.ReferrersDangling = vrBool(ins[7])
						c.Storage.GC.ReferrersWithSubj = vrBool(ins[8])
						c.API.Manifest.Limit = n
						c.API.Referrer.PageCacheExpire = time.Duration(n)
						c.API.Referrer.PageCacheLimit = int(n)
						c.API.Referrer.Limit = n
						c.Storage.GC.Frequency = time.Duration(n)
						c.Storage.GC.GracePeriod = time.Duration(n)
						c.Storage.GC.RepoUploadMax = int(n)
						c.Storage.StoreType = st
						c.Storage.RootDir = root
						c.API.RateLimit = 3
						c.SetDefaults()
						desc := fmt.Sprintf("switches=%v numbers=%d store=%d root=%q", ins, n, st, root)
						for _, m := range []string{
							vrCheckBool("API.DeleteEnabled", ins[0], c.API.DeleteEnabled, false),
							vrCheckBool("API.PushEnabled", ins[1], c.API.PushEnabled, true),
							vrCheckBool("API.Blob.DeleteEnabled", ins[2], c.API.Blob.DeleteEnabled, false),
							vrCheckBool("API.Referrer.Enabled", ins[3], c.API.Referrer.Enabled, true),
							vrCheckBool("Storage.ReadOnly", ins[4], c.Storage.ReadOnly, false),
							vrCheckBool("GC.Untagged", ins[5], c.Storage.GC.Untagged, false),
							vrCheckBool("GC.EmptyRepo", ins[6], c.Storage.GC.EmptyRepo, true),
							vrCheckBool("GC.ReferrersDangling", ins[7], c.Storage.GC.ReferrersDangling, false),
							vrCheckBool("GC.ReferrersWithSubj", ins[8], c.Storage.GC.ReferrersWithSubj, true),
						} {
							if m != "" {
								fmt.Printf("REPLAY-FAIL: SetDefaults on {%s}: %s\n", desc, m)
								return
							}
						}
						type numCase struct {
							name      string
							got, def  int64
							keepNeg   bool
						}
						for _, nc := range []numCase{
							{"API.Manifest.Limit", c.API.Manifest.Limit, 8 * 1024 * 1024, false},
							{"Referrer.PageCacheExpire", int64(c.API.Referrer.PageCacheExpire), int64(5 * time.Minute), true},
							{"Referrer.PageCacheLimit", int64(c.API.Referrer.PageCacheLimit), 1000, true},
							{"Referrer.Limit", c.API.Referrer.Limit, 4 * 1024 * 1024, true},
							{"GC.Frequency", int64(c.Storage.GC.Frequency), int64(15 * time.Minute), true},
							{"GC.GracePeriod", int64(c.Storage.GC.GracePeriod), int64(time.Hour), true},
							{"GC.RepoUploadMax", int64(c.Storage.GC.RepoUploadMax), 1000, true},
						} {
							want := n
							if n == 0 || (n < 0 && !nc.keepNeg) {
								want = nc.def
							}
							if nc.got != want {
								fmt.Printf("REPLAY-FAIL: SetDefaults on {%s}: %s = %d, want %d\n", desc, nc.name, nc.got, want)
								return
							}
						}
						wantRoot := root
						if st == StoreDir && root == "" {
							wantRoot = "."
						}
						if c.Storage.RootDir != wantRoot || c.Storage.StoreType != st || c.API.RateLimit != 3 {
							fmt.Printf("REPLAY-FAIL: SetDefaults on {%s}: RootDir=%q StoreType=%d RateLimit=%d\n", desc, c.Storage.RootDir, c.Storage.StoreType, c.API.RateLimit)
							return
						}
					}
				}
			}
		}
	}
	fmt.Printf("REPLAY-NONE config: %d configurations agree with the defaults table\n", count)
}

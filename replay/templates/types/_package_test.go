package types

// Replay harness for package types (injected with `go test -overlay`, never written into /repo).
// It does NOT decide anything: it is run after a proof obligation has failed, to look for a concrete
// history on the real code that violates the property statement (C18 / C03 clauses a-g).
// Output protocol: a line "REPLAY-FAIL: ..." for the first failing history, else "REPLAY-NONE".

import (
	"fmt"
	"os"
	"sort"
	"strconv"
	"strings"
	"testing"

	"github.com/opencontainers/go-digest"
)

type vrOp struct {
	kind string // add rm children
	d    Descriptor
	opts []Descriptor
}

func (o vrOp) String() string {
	a := []string{}
	for k, v := range o.d.Annotations {
		a = append(a, k[strings.LastIndex(k, ".")+1:]+"="+v)
	}
	sort.Strings(a)
	s := fmt.Sprintf("%s(%s{%s})", o.kind, vrShort(o.d.Digest), strings.Join(a, ","))
	if o.d.Annotations == nil {
		s = fmt.Sprintf("%s(%s)", o.kind, vrShort(o.d.Digest))
	}
	if len(o.opts) > 0 {
		s += "+children"
		for _, c := range o.opts {
			s += ":" + vrShort(c.Digest)
		}
	}
	return s
}

func vrShort(d digest.Digest) string {
	if d == "" {
		return "-"
	}
	return string(d)[7:8]
}

func vrDig(c string) digest.Digest {
	return digest.Digest("sha256:" + strings.Repeat(c, 64))
}

func vrState(i Index) string {
	var es []string
	for _, m := range i.Manifests {
		a := "nil"
		if m.Annotations != nil {
			var ks []string
			for k, v := range m.Annotations {
				ks = append(ks, k[strings.LastIndex(k, ".")+1:]+"="+v)
			}
			sort.Strings(ks)
			a = "{" + strings.Join(ks, ",") + "}"
		}
		es = append(es, vrShort(m.Digest)+a)
	}
	var cs []string
	for _, m := range i.childManifests {
		cs = append(cs, vrShort(m.Digest))
	}
	return strings.Join(es, " ") + " | " + strings.Join(cs, " ")
}

func vrTag(d Descriptor) string  { return d.Annotations[AnnotRefName] }
func vrSubj(d Descriptor) string { return d.Annotations[AnnotReferrerSubject] }

// vrWant: the clauses looked at depend on which function's obligation failed (VERIF_OBLIGATION);
// without it every clause is checked.
func vrWant(clause string) bool {
	ob := os.Getenv("VERIF_OBLIGATION")
	switch {
	case strings.Contains(ob, ".GetDesc#"):
		return clause == "d"
	case strings.Contains(ob, "Copy#"):
		return clause == "g"
	case strings.Contains(ob, ".RmDesc#"), strings.Contains(ob, ".AddDesc#"), strings.Contains(ob, ".AddChildren#"):
		return clause != "d" && clause != "g"
	}
	return true
}

// vrKindWanted: a failed obligation of RmDesc is only replayed by histories whose last step is an RmDesc, etc.
func vrKindWanted(kind string) bool {
	ob := os.Getenv("VERIF_OBLIGATION")
	switch {
	case strings.Contains(ob, ".RmDesc#"):
		return kind == "rm"
	case strings.Contains(ob, ".AddDesc#"):
		return kind == "add"
	case strings.Contains(ob, ".AddChildren#"):
		return kind == "children"
	}
	return true
}

// statement-level checks on one state
func vrCheckState(i Index) string {
	tags := map[string]int{}
	subj := map[string]int{}
	plain := map[digest.Digest]int{}
	for _, m := range i.Manifests {
		if t := vrTag(m); t != "" {
			tags[t]++
		}
		if s := vrSubj(m); s != "" {
			subj[s]++
		}
		if vrTag(m) == "" && vrSubj(m) == "" {
			plain[m.Digest]++
		}
	}
	if !vrWant("abc") {
		tags, subj, plain = nil, nil, nil
	}
	for t, n := range tags {
		if n > 1 {
			return fmt.Sprintf("(a) tag %q names %d entries", t, n)
		}
	}
	for s, n := range subj {
		if n > 1 {
			return fmt.Sprintf("(b) subject %s has %d referrers responses", s[7:8], n)
		}
	}
	for d, n := range plain {
		if n > 1 {
			return fmt.Sprintf("(c) untagged digest %s is listed %d times", vrShort(d), n)
		}
	}
	// (d) lookup by digest succeeds exactly for top-level or child digests
	for _, c := range []string{"a", "b", "c"} {
		if !vrWant("d") {
			break
		}
		x := vrDig(c)
		want := false
		for _, m := range i.Manifests {
			if m.Digest == x {
				want = true
			}
		}
		for _, m := range i.childManifests {
			if m.Digest == x {
				want = true
			}
		}
		_, err := i.GetDesc(string(x))
		if (err == nil) != want {
			return fmt.Sprintf("(d) GetDesc(%s): found=%v but present=%v", c, err == nil, want)
		}
	}
	return ""
}

func vrTagMap(i Index) map[string]digest.Digest {
	m := map[string]digest.Digest{}
	for _, e := range i.Manifests {
		if t := vrTag(e); t != "" {
			m[t] = e.Digest
		}
	}
	return m
}

func vrHas(i Index, x digest.Digest) bool {
	for _, e := range i.Manifests {
		if e.Digest == x {
			return true
		}
	}
	return false
}

func vrHasChild(i Index, x digest.Digest) bool {
	for _, e := range i.childManifests {
		if e.Digest == x {
			return true
		}
	}
	return false
}

// two-state checks for one operation
func vrCheckOp(before, after Index, op vrOp) string {
	if !vrWant("op") {
		return ""
	}
	tb, ta := vrTagMap(before), vrTagMap(after)
	t := vrTag(op.d)
	switch op.kind {
	case "add":
		if t != "" && ta[t] != op.d.Digest {
			return fmt.Sprintf("(a) after AddDesc the tag %q does not resolve to the inserted digest", t)
		}
		for k, v := range tb {
			if k != t && ta[k] != v {
				return fmt.Sprintf("(a) AddDesc changed the unrelated tag %q", k)
			}
		}
		if !vrHas(after, op.d.Digest) {
			return "inserted digest is not listed"
		}
	case "rm":
		x := op.d.Digest
		if x != "" && t == "" {
			if vrHas(after, x) || vrHasChild(after, x) {
				return fmt.Sprintf("(f) removing digest %s left a reference to it", vrShort(x))
			}
		}
		if x != "" && t != "" {
			if vrHas(before, x) && !vrHas(after, x) {
				return fmt.Sprintf("(e) removing tag %q made digest %s unreachable", t, vrShort(x))
			}
			if ta[t] == x {
				return fmt.Sprintf("tag %q still resolves after its removal", t)
			}
		}
		for k, v := range tb {
			gone := (x != "" && v == x && (t == "" || k == t)) || (x == "" && t != "" && k == t)
			if !gone && ta[k] != v {
				return fmt.Sprintf("RmDesc changed the unrelated tag %q", k)
			}
		}
	}
	for k := range ta {
		if _, ok := tb[k]; !ok && !(op.kind == "add" && k == t) {
			return fmt.Sprintf("tag %q appeared from nowhere", k)
		}
	}
	return ""
}

func vrApply(i *Index, op vrOp) {
	d := op.d.Copy()
	switch op.kind {
	case "add":
		if op.opts != nil {
			i.AddDesc(d, IndexWithChildren(op.opts))
		} else {
			i.AddDesc(d)
		}
	case "rm":
		i.RmDesc(d)
	case "children":
		i.AddChildren(op.opts)
	}
}

func vrOps() []vrOp {
	var ops []vrOp
	ann := func(k, v string) map[string]string { return map[string]string{k: v} }
	for _, c := range []string{"a", "b", "c"} {
		x := vrDig(c)
		base := Descriptor{MediaType: MediaTypeOCI1Manifest, Digest: x, Size: 1}
		ops = append(ops, vrOp{kind: "add", d: base})
		for _, t := range []string{"t", "u"} {
			d := base
			d.Annotations = ann(AnnotRefName, t)
			ops = append(ops, vrOp{kind: "add", d: d}, vrOp{kind: "rm", d: d})
		}
		ops = append(ops, vrOp{kind: "rm", d: base})
	}
	// a referrers response for subject a, and removal by subject / by tag alone
	resp := Descriptor{MediaType: MediaTypeOCI1ManifestList, Digest: vrDig("c"), Size: 2, Annotations: ann(AnnotReferrerSubject, string(vrDig("a")))}
	ops = append(ops, vrOp{kind: "add", d: resp})
	ops = append(ops, vrOp{kind: "rm", d: Descriptor{Annotations: ann(AnnotReferrerSubject, string(vrDig("a")))}})
	ops = append(ops, vrOp{kind: "rm", d: Descriptor{Annotations: ann(AnnotRefName, "t")}})
	// an index b pushed with child a
	idx := Descriptor{MediaType: MediaTypeOCI1ManifestList, Digest: vrDig("b"), Size: 3, Annotations: ann(AnnotRefName, "u")}
	ops = append(ops, vrOp{kind: "add", d: idx, opts: []Descriptor{{MediaType: MediaTypeOCI1Manifest, Digest: vrDig("a"), Size: 1}}})
	ops = append(ops, vrOp{kind: "children", opts: []Descriptor{{MediaType: MediaTypeOCI1Manifest, Digest: vrDig("a"), Size: 1}}})
	return ops
}

// copy independence (g): mutating a copy in every reachable way must not show in the original
func vrCheckCopy(i Index) string {
	if !vrWant("g") {
		return ""
	}
	before := vrState(i)
	c := i.Copy()
	for k := range c.Manifests {
		if c.Manifests[k].Annotations != nil {
			c.Manifests[k].Annotations["x"] = "y"
		}
		c.Manifests[k].Digest = "sha256:zz"
	}
	for k := range c.childManifests {
		c.childManifests[k].Digest = "sha256:zz"
	}
	c.AddChildren([]Descriptor{{Digest: vrDig("a")}})
	c.AddDesc(Descriptor{Digest: vrDig("c"), Annotations: map[string]string{AnnotRefName: "zz"}})
	if vrState(i) != before {
		return "(g) a change made through the copy is visible in the original"
	}
	c2 := i.Copy()
	snap := vrState(c2)
	i2 := i
	i2.AddChildren([]Descriptor{{Digest: vrDig("b")}})
	i2.AddDesc(Descriptor{Digest: vrDig("c"), Annotations: map[string]string{AnnotRefName: "zz"}})
	if vrState(c2) != snap {
		return "(g) a change made to the original is visible in the copy"
	}
	return ""
}

// error documents (C15): each constructor yields its registered code
func vrErrCodes() string {
	want := map[string]ErrorInfo{
		"BLOB_UNKNOWN": ErrInfoBlobUnknown("d"), "BLOB_UPLOAD_INVALID": ErrInfoBlobUploadInvalid("d"), "BLOB_UPLOAD_UNKNOWN": ErrInfoBlobUploadUnknown("d"),
		"DIGEST_INVALID": ErrInfoDigestInvalid("d"), "MANIFEST_BLOB_UNKNOWN": ErrInfoManifestBlobUnknown("d"), "MANIFEST_INVALID": ErrInfoManifestInvalid("d"),
		"MANIFEST_UNKNOWN": ErrInfoManifestUnknown("d"), "NAME_INVALID": ErrInfoNameInvalid("d"), "NAME_UNKNOWN": ErrInfoNameUnknown("d"),
		"SIZE_INVALID": ErrInfoSizeInvalid("d"), "UNAUTHORIZED": ErrInfoUnauthorized("d"), "DENIED": ErrInfoDenied("d"), "UNSUPPORTED": ErrInfoUnsupported("d"),
		"TOOMANYREQUESTS": ErrInfoTooManyRequests("d"),
	}
	for code, e := range want {
		if e.Code != code || e.Detail != "d" {
			return fmt.Sprintf("the error constructor for %s returns code %q (message %q)", code, e.Code, e.Message)
		}
	}
	return ""
}

func TestVerifReplay(t *testing.T) {
	if strings.Contains(os.Getenv("VERIF_OBLIGATION"), ".ErrInfo") {
		if msg := vrErrCodes(); msg != "" {
			fmt.Printf("REPLAY-FAIL: %s\n", msg)
			t.Fatalf("property violated on the real code")
		}
		fmt.Printf("REPLAY-NONE: error constructors checked\n")
		return
	}
	depth := 7
	if v, err := strconv.Atoi(os.Getenv("VERIF_REPLAY_DEPTH")); err == nil {
		depth = v
	}
	type node struct {
		idx  Index
		hist []string
	}
	ops := vrOps()
	seen := map[string]bool{}
	frontier := []node{{Index{}, nil}}
	seen[vrState(Index{})] = true
	states := 0
	for lvl := 0; lvl < depth; lvl++ {
		var next []node
		for _, n := range frontier {
			for _, op := range ops {
				before := n.idx.Copy()
				after := n.idx.Copy()
				vrApply(&after, op)
				hist := append(append([]string{}, n.hist...), op.String())
				msg := vrCheckOp(before, after, op)
				if msg == "" {
					msg = vrCheckState(after)
				}
				if msg == "" {
					msg = vrCheckCopy(after.Copy())
				}
				if msg != "" && !vrKindWanted(op.kind) {
					continue // a violation introduced by another operation: not what is being replayed; do not build on it
				}
				if msg != "" {
					fmt.Printf("REPLAY-FAIL: %s; history from the empty index: %s; resulting index: [%s]\n", msg, strings.Join(hist, " ; "), vrState(after))
					t.Fatalf("property violated on the real code")
				}
				k := vrState(after)
				if !seen[k] {
					seen[k] = true
					states++
					next = append(next, node{after, hist})
				}
			}
		}
		frontier = next
	}
	fmt.Printf("REPLAY-NONE: %d reachable index states explored to depth %d, no violation of clauses (a)-(g)\n", states, depth)
}

package olareg

// Replay harness for package olareg (injected with `go test -overlay`; never written into /repo).
// Run after a proof obligation of a handler failed: drives a real Server (memory store) through httptest and
// looks for a request on which the real code violates the property statement.
// Output: "REPLAY-FAIL: ..." for the first failing request, else "REPLAY-NONE ...".

import (
	"bytes"
	"encoding/json"
	"fmt"
	"io"
	"net/http"
	"net/http/httptest"
	"os"
	"sort"
	"strings"
	"testing"

	"github.com/opencontainers/go-digest"

	"github.com/olareg/olareg/config"
	"github.com/olareg/olareg/types"
)

type vrResp struct {
	code     int
	body     []byte
	hdr      http.Header
	panicked any
}

func vrDo(s *Server, method, target string, hdr map[string]string, body []byte) (res vrResp) {
	defer func() {
		if p := recover(); p != nil {
			res.panicked = p
		}
	}()
	req := httptest.NewRequest(method, target, bytes.NewReader(body))
	for k, v := range hdr {
		req.Header.Set(k, v)
	}
	rec := httptest.NewRecorder()
	s.ServeHTTP(rec, req)
	r := rec.Result()
	b, _ := io.ReadAll(r.Body)
	return vrResp{code: r.StatusCode, body: b, hdr: r.Header}
}

func vrPushBlob(s *Server, repo string, content []byte) digest.Digest {
	d := digest.Canonical.FromBytes(content)
	vrDo(s, "POST", "/v2/"+repo+"/blobs/uploads/?digest="+d.String(), nil, content)
	return d
}

func vrPushImage(s *Server, repo, ref string, seed string) (digest.Digest, []byte) {
	conf := []byte(`{"seed":"` + seed + `"}`)
	cd := vrPushBlob(s, repo, conf)
	m := types.Manifest{SchemaVersion: 2, MediaType: types.MediaTypeOCI1Manifest,
		Config: types.Descriptor{MediaType: types.MediaTypeOCI1ImageConfig, Digest: cd, Size: int64(len(conf))}, Layers: []types.Descriptor{}}
	raw, _ := json.Marshal(m)
	d := digest.Canonical.FromBytes(raw)
	if ref == "" {
		ref = d.String()
	}
	vrDo(s, "PUT", "/v2/"+repo+"/manifests/"+ref, map[string]string{"Content-Type": types.MediaTypeOCI1Manifest}, raw)
	return d, raw
}

func vrTags(s *Server, repo, query string) (vrResp, []string) {
	r := vrDo(s, "GET", "/v2/"+repo+"/tags/list"+query, nil, nil)
	tl := types.TagList{}
	_ = json.Unmarshal(r.body, &tl)
	return r, tl.Tags
}

// tag listing (C03): every n and last gives a valid listing; paging visits every tag exactly once
func vrTagList() string {
	tr, fa := true, false
	s := New(config.Config{Storage: config.ConfigStorage{StoreType: config.StoreMem}, API: config.ConfigAPI{DeleteEnabled: &tr, PushEnabled: &tr, Referrer: config.ConfigAPIReferrer{Enabled: &fa}}})
	defer s.Close()
	want := []string{"Beta", "alpha", "b", "rc-1", "v1", "v2"}
	for _, t := range want {
		vrPushImage(s, "repo", t, "x")
	}
	sort.Strings(want)
	for _, q := range []string{"", "?n=0", "?n=-1", "?n=1", "?n=2", "?n=6", "?n=7", "?n=100000", "?n=x", "?n=", "?last=b", "?n=2&last=alpha", "?n=0&last=zz", "?last=zz", "?n=-5&last=b"} {
		r, tags := vrTags(s, "repo", q)
		if r.panicked != nil {
			return fmt.Sprintf("GET /v2/repo/tags/list%s panics: %v", q, r.panicked)
		}
		if r.code != 200 {
			return fmt.Sprintf("GET /v2/repo/tags/list%s answers %d", q, r.code)
		}
		if !sort.StringsAreSorted(tags) {
			return fmt.Sprintf("GET /v2/repo/tags/list%s is not in lexical order: %v", q, tags)
		}
		for i := 1; i < len(tags); i++ {
			if tags[i] == tags[i-1] {
				return fmt.Sprintf("GET /v2/repo/tags/list%s lists %q twice", q, tags[i])
			}
		}
	}
	// exact listing (the statement): the tags strictly above `last`, in order, cut to n when n is a non-negative number -
	// for cursors that are tags and cursors that are not (a tag deleted between two pages, an arbitrary value)
	for _, last := range []string{"", "A", "Beta", "Betb", "a", "alpha", "alphb", "b", "c", "rc-1", "rc-2", "v", "v1", "v1x", "v2", "v3", "zz"} {
		for _, n := range []int{-1, 0, 1, 2, 3, 6, 7} {
			var exp []string
			for _, t := range want {
				if t > last {
					exp = append(exp, t)
				}
			}
			q := "?last=" + last
			if last == "" {
				q = "?x=1"
			}
			if n >= 0 {
				q += fmt.Sprintf("&n=%d", n)
				if len(exp) > n {
					exp = exp[:n]
				}
			}
			r, tags := vrTags(s, "repo", q)
			if r.panicked != nil || r.code != 200 {
				return fmt.Sprintf("GET /v2/repo/tags/list%s fails (%d, %v)", q, r.code, r.panicked)
			}
			if strings.Join(tags, ",") != strings.Join(exp, ",") {
				return fmt.Sprintf("GET /v2/repo/tags/list%s lists %v, the tags above %q (cut to n) are %v", q, tags, last, exp)
			}
		}
	}
	for n := 1; n <= len(want)+1; n++ {
		var seen []string
		q := fmt.Sprintf("?n=%d", n)
		for step := 0; step < 20; step++ {
			r, tags := vrTags(s, "repo", q)
			if r.panicked != nil || r.code != 200 {
				return fmt.Sprintf("paging with n=%d: request %s fails (%d, %v)", n, q, r.code, r.panicked)
			}
			if len(tags) > n {
				return fmt.Sprintf("paging with n=%d: page %s has %d tags", n, q, len(tags))
			}
			seen = append(seen, tags...)
			link := r.hdr.Get("Link")
			if link == "" {
				break
			}
			i, j := strings.Index(link, "<"), strings.Index(link, ">")
			u := link[i+1 : j]
			q = u[strings.Index(u, "?"):]
		}
		if strings.Join(seen, ",") != strings.Join(want, ",") {
			return fmt.Sprintf("paging with n=%d visits %v, the tags are %v", n, seen, want)
		}
	}
	return ""
}

// manifestGet (C15): a tagged index whose blob was deleted through the blob API must not give a 5xx
func vrManifestGetMissingBlob() string {
	tr := true
	s := New(config.Config{Storage: config.ConfigStorage{StoreType: config.StoreMem}, API: config.ConfigAPI{DeleteEnabled: &tr, PushEnabled: &tr, Blob: config.ConfigAPIBlob{DeleteEnabled: &tr}}})
	defer s.Close()
	d, raw := vrPushImage(s, "repo", "", "a")
	idx := types.Index{SchemaVersion: 2, MediaType: types.MediaTypeOCI1ManifestList, Manifests: []types.Descriptor{{MediaType: types.MediaTypeOCI1Manifest, Digest: d, Size: int64(len(raw))}}}
	iraw, _ := json.Marshal(idx)
	id := digest.Canonical.FromBytes(iraw)
	if r := vrDo(s, "PUT", "/v2/repo/manifests/multi", map[string]string{"Content-Type": types.MediaTypeOCI1ManifestList}, iraw); r.code != 201 {
		return ""
	}
	vrDo(s, "DELETE", "/v2/repo/blobs/"+id.String(), nil, nil)
	for _, accept := range []string{types.MediaTypeOCI1Manifest, types.MediaTypeOCI1ManifestList, "text/plain"} {
		r := vrDo(s, "GET", "/v2/repo/manifests/multi", map[string]string{"Accept": accept}, nil)
		if r.panicked != nil || r.code >= 500 {
			return fmt.Sprintf("after deleting the index blob through the blob API, GET /v2/repo/manifests/multi with Accept: %s answers %d (panic %v) although storage is healthy", accept, r.code, r.panicked)
		}
	}
	return ""
}

func vrPushArtifact(s *Server, repo string, subject types.Descriptor, seed string, ann map[string]string) (digest.Digest, int) {
	conf := []byte(`{}`)
	cd := vrPushBlob(s, repo, conf)
	m := types.Manifest{SchemaVersion: 2, MediaType: types.MediaTypeOCI1Manifest, ArtifactType: "application/vnd.example." + seed,
		Config: types.Descriptor{MediaType: types.MediaTypeOCI1Empty, Digest: cd, Size: int64(len(conf))}, Layers: []types.Descriptor{},
		Subject: &subject, Annotations: ann}
	raw, _ := json.Marshal(m)
	d := digest.Canonical.FromBytes(raw)
	r := vrDo(s, "PUT", "/v2/"+repo+"/manifests/"+d.String(), map[string]string{"Content-Type": types.MediaTypeOCI1Manifest}, raw)
	return d, r.code
}

// referrers (C07): every pushed artifact is listed once with its own annotations, whatever the annotations are
func vrReferrersAnnotations() string {
	tr := true
	s := New(config.Config{Storage: config.ConfigStorage{StoreType: config.StoreMem}, API: config.ConfigAPI{DeleteEnabled: &tr, PushEnabled: &tr}})
	defer s.Close()
	sd, sraw := vrPushImage(s, "repo", "subject", "s")
	subj := types.Descriptor{MediaType: types.MediaTypeOCI1Manifest, Digest: sd, Size: int64(len(sraw))}
	for _, key := range []string{types.AnnotRefName, types.AnnotReferrerSubject, "plain.key"} {
		anns := []map[string]string{{key: "v", "who": "first"}, {key: "v", "who": "second"}}
		var ds []digest.Digest
		for i, a := range anns {
			d, code := vrPushArtifact(s, "repo", subj, fmt.Sprintf("%s-%d", key[strings.LastIndex(key, ".")+1:], i), a)
			if code != 201 {
				return fmt.Sprintf("artifact push answered %d", code)
			}
			ds = append(ds, d)
		}
		r := vrDo(s, "GET", "/v2/repo/referrers/"+sd.String(), nil, nil)
		idx := types.Index{}
		_ = json.Unmarshal(r.body, &idx)
		for i, d := range ds {
			n := 0
			for _, e := range idx.Manifests {
				if e.Digest == d {
					n++
					for k, v := range anns[i] {
						if e.Annotations[k] != v {
							return fmt.Sprintf("two artifacts of one subject both carry the annotation %s=v: the referrers response lists artifact %d with annotations %v, pushed with %v", key, i+1, e.Annotations, anns[i])
						}
					}
				}
			}
			if n != 1 {
				return fmt.Sprintf("two artifacts of one subject both carry the annotation %s=v: artifact %d is listed %d times", key, i+1, n)
			}
		}
		// deleting an artifact by digest removes it from the response
		vrDo(s, "DELETE", "/v2/repo/manifests/"+ds[0].String(), nil, nil)
		r = vrDo(s, "GET", "/v2/repo/referrers/"+sd.String(), nil, nil)
		idx = types.Index{}
		_ = json.Unmarshal(r.body, &idx)
		for _, e := range idx.Manifests {
			if e.Digest == ds[0] {
				return fmt.Sprintf("an artifact carrying the annotation %s=v was deleted by digest but is still listed as a referrer", key)
			}
		}
		vrDo(s, "DELETE", "/v2/repo/manifests/"+ds[1].String(), nil, nil)
	}
	return ""
}

// mount (C16): the source repository of a cross-repository mount must be a name of the repository grammar
func vrMountOutside() string {
	tmp, err := os.MkdirTemp("", "vrmount")
	if err != nil {
		return ""
	}
	defer os.RemoveAll(tmp)
	root := tmp + "/root"
	outside := tmp + "/outside"
	content := []byte("secret outside the registry root")
	d := digest.Canonical.FromBytes(content)
	_ = os.MkdirAll(outside+"/blobs/sha256", 0o755)
	_ = os.MkdirAll(root, 0o755)
	_ = os.WriteFile(outside+"/oci-layout", []byte(`{"imageLayoutVersion":"1.0.0"}`), 0o644)
	_ = os.WriteFile(outside+"/index.json", []byte(`{"schemaVersion":2,"manifests":[]}`), 0o644)
	_ = os.WriteFile(outside+"/blobs/sha256/"+d.Encoded(), content, 0o644)
	tr := true
	s := New(config.Config{Storage: config.ConfigStorage{StoreType: config.StoreDir, RootDir: root}, API: config.ConfigAPI{PushEnabled: &tr}})
	defer s.Close()
	r := vrDo(s, "POST", "/v2/repo/blobs/uploads/?mount="+d.String()+"&from=../outside", nil, nil)
	if r.code == 201 {
		g := vrDo(s, "GET", "/v2/repo/blobs/"+d.String(), nil, nil)
		if g.code == 200 && string(g.body) == string(content) {
			return "POST /v2/repo/blobs/uploads/?mount=<digest>&from=../outside copies a blob from a directory outside the configured root into the repository (201, then GET returns its content)"
		}
	}
	return ""
}

// manifest push (C02, C04): a body longer than the limit is refused also without Content-Length; the media type must match the body
func vrManifestPutLimits() string {
	tr := true
	s := New(config.Config{Storage: config.ConfigStorage{StoreType: config.StoreMem}, API: config.ConfigAPI{PushEnabled: &tr, Manifest: config.ConfigAPIManifest{Limit: 600}}})
	defer s.Close()
	conf := []byte(`{}`)
	cd := vrPushBlob(s, "repo", conf)
	m := types.Manifest{SchemaVersion: 2, MediaType: types.MediaTypeOCI1Manifest, Config: types.Descriptor{MediaType: types.MediaTypeOCI1ImageConfig, Digest: cd, Size: 2}, Layers: []types.Descriptor{}}
	raw, _ := json.Marshal(m)
	padded := append(append([]byte{}, raw...), bytes.Repeat([]byte(" "), 700-len(raw))...)
	padded = append(padded, []byte("trailing bytes beyond the limit")...)
	// unknown Content-Length
	func() {
		defer func() { _ = recover() }()
	}()
	req := httptest.NewRequest("PUT", "/v2/repo/manifests/big", io.NopCloser(bytes.NewReader(padded)))
	req.ContentLength = -1
	req.Header.Set("Content-Type", types.MediaTypeOCI1Manifest)
	rec := httptest.NewRecorder()
	s.ServeHTTP(rec, req)
	if rec.Code == 201 {
		g := vrDo(s, "GET", "/v2/repo/manifests/big", map[string]string{"Accept": types.MediaTypeOCI1Manifest}, nil)
		return fmt.Sprintf("a manifest body of %d bytes (limit 600, unknown Content-Length) is acknowledged with 201 and stored as %d bytes", len(padded), len(g.body))
	}
	// body says image manifest, Content-Type says index
	r := vrDo(s, "PUT", "/v2/repo/manifests/mismatch", map[string]string{"Content-Type": types.MediaTypeOCI1ManifestList}, raw)
	if r.code == 201 {
		return "an image manifest body (mediaType application/vnd.oci.image.manifest.v1+json) pushed with Content-Type application/vnd.oci.image.index.v1+json is acknowledged with 201"
	}
	return ""
}

// tag delete (C07): an artifact pushed by tag stays a referrer of its subject after the tag is deleted
func vrTagDeleteKeepsReferrer() string {
	tr := true
	s := New(config.Config{Storage: config.ConfigStorage{StoreType: config.StoreMem}, API: config.ConfigAPI{DeleteEnabled: &tr, PushEnabled: &tr}})
	defer s.Close()
	sd, sraw := vrPushImage(s, "repo", "subject", "s")
	subj := types.Descriptor{MediaType: types.MediaTypeOCI1Manifest, Digest: sd, Size: int64(len(sraw))}
	conf := []byte(`{}`)
	cd := vrPushBlob(s, "repo", conf)
	m := types.Manifest{SchemaVersion: 2, MediaType: types.MediaTypeOCI1Manifest, ArtifactType: "application/vnd.example.sig",
		Config: types.Descriptor{MediaType: types.MediaTypeOCI1Empty, Digest: cd, Size: 2}, Layers: []types.Descriptor{}, Subject: &subj}
	raw, _ := json.Marshal(m)
	ad := digest.Canonical.FromBytes(raw)
	vrDo(s, "PUT", "/v2/repo/manifests/sig", map[string]string{"Content-Type": types.MediaTypeOCI1Manifest}, raw)
	vrDo(s, "DELETE", "/v2/repo/manifests/sig", nil, nil)
	g := vrDo(s, "GET", "/v2/repo/manifests/"+ad.String(), map[string]string{"Accept": types.MediaTypeOCI1Manifest}, nil)
	r := vrDo(s, "GET", "/v2/repo/referrers/"+sd.String(), nil, nil)
	idx := types.Index{}
	_ = json.Unmarshal(r.body, &idx)
	listed := false
	for _, e := range idx.Manifests {
		if e.Digest == ad {
			listed = true
		}
	}
	if g.code == 200 && !listed {
		return "an artifact pushed under tag 'sig' is still present by digest after DELETE of the tag, but the referrers response of its subject no longer lists it"
	}
	return ""
}

// filtered referrers (C07): every answer to a filtered request announces the filter, also when it comes from the page cache
func vrReferrersFilterAnnounced() string {
	tr := true
	s := New(config.Config{Storage: config.ConfigStorage{StoreType: config.StoreMem}, API: config.ConfigAPI{DeleteEnabled: &tr, PushEnabled: &tr}})
	defer s.Close()
	sd, sraw := vrPushImage(s, "repo", "subject", "s")
	subj := types.Descriptor{MediaType: types.MediaTypeOCI1Manifest, Digest: sd, Size: int64(len(sraw))}
	if _, code := vrPushArtifact(s, "repo", subj, "sig", nil); code != 201 {
		return ""
	}
	target := "/v2/repo/referrers/" + sd.String() + "?artifactType=application/vnd.example.sig"
	for n := 1; n <= 3; n++ {
		r := vrDo(s, "GET", target, nil, nil)
		if r.code == 200 && r.hdr.Get("OCI-Filters-Applied") != "artifactType" {
			return fmt.Sprintf("request %d of GET %s answers 200 with a filtered list but without the header OCI-Filters-Applied: artifactType (got %q); the first answer had it, the repeated one is served from the page cache", n, target, r.hdr.Get("OCI-Filters-Applied"))
		}
	}
	return ""
}


// manifestGet / blobGet (C02): what HEAD says about a stored object is what GET delivers - status, digest, type and length
// - also when an index that lists the object says something else about it
func vrHeadMatchesGet() string {
	tr := true
	for _, delta := range []int64{7, -1000, 0} {
		s := New(config.Config{Storage: config.ConfigStorage{StoreType: config.StoreMem}, API: config.ConfigAPI{DeleteEnabled: &tr, PushEnabled: &tr}})
		defer s.Close()
		d, raw := vrPushImage(s, "repo", "", "h")
		listedSize := int64(len(raw)) + delta
		if listedSize < 0 {
			listedSize = 1
		}
		idx := types.Index{SchemaVersion: 2, MediaType: types.MediaTypeOCI1ManifestList, Manifests: []types.Descriptor{{MediaType: types.MediaTypeOCI1Manifest, Digest: d, Size: listedSize}}}
		iraw, _ := json.Marshal(idx)
		if r := vrDo(s, "PUT", "/v2/repo/manifests/idx", map[string]string{"Content-Type": types.MediaTypeOCI1ManifestList}, iraw); r.code != 201 {
			return ""
		}
		for _, target := range []string{"/v2/repo/manifests/" + d.String(), "/v2/repo/blobs/" + d.String(), "/v2/repo/manifests/idx"} {
			acc := map[string]string{"Accept": types.MediaTypeOCI1Manifest + ", " + types.MediaTypeOCI1ManifestList}
			g := vrDo(s, "GET", target, acc, nil)
			h := vrDo(s, "HEAD", target, acc, nil)
			if g.panicked != nil || h.panicked != nil {
				return fmt.Sprintf("GET/HEAD %s panics (%v, %v)", target, g.panicked, h.panicked)
			}
			if g.code != h.code {
				return fmt.Sprintf("HEAD %s answers %d, GET answers %d (index lists the image with size %d)", target, h.code, g.code, listedSize)
			}
			if g.code == 200 {
				if cl := h.hdr.Get("Content-Length"); cl != fmt.Sprint(len(g.body)) {
					return fmt.Sprintf("HEAD %s reports Content-Length %s, GET delivers %d bytes (an index lists the image with size %d)", target, cl, len(g.body), listedSize)
				}
				if h.hdr.Get("Docker-Content-Digest") != g.hdr.Get("Docker-Content-Digest") || h.hdr.Get("Content-Type") != g.hdr.Get("Content-Type") {
					return fmt.Sprintf("HEAD and GET of %s disagree on digest or content type", target)
				}
			}
		}
	}
	return ""
}

// rate limit (C19): clients are told apart by their address, whatever its family; one client using up its allowance
// leaves every other client alone
func vrRateLimitPerAddress() string {
	tr := true
	for _, pair := range [][2]string{{"192.0.2.1:4000", "192.0.2.2:4000"}, {"[2001:db8::a]:40001", "[2001:db8::b]:40001"}, {"[2001:db8::a]:40001", "[2001:db9::a]:40001"}} {
		for attempt := 0; attempt < 3; attempt++ {
			s := New(config.Config{Storage: config.ConfigStorage{StoreType: config.StoreMem}, API: config.ConfigAPI{PushEnabled: &tr, RateLimit: 2}})
			do := func(addr string) int {
				req := httptest.NewRequest("GET", "/v2/", nil)
				req.RemoteAddr = addr
				rec := httptest.NewRecorder()
				s.ServeHTTP(rec, req)
				return rec.Result().StatusCode
			}
			limited := false
			for i := 0; i < 4; i++ {
				if do(pair[0]) == 429 {
					limited = true
				}
			}
			codeB := do(pair[1])
			_ = s.Close()
			if limited && codeB == 429 {
				return fmt.Sprintf("rate limit 2/s: after client %s used up its allowance the first request of client %s is answered 429", pair[0], pair[1])
			}
			if limited {
				break
			}
		}
	}
	return ""
}

// manifestPut (C15, C19): a subject field is client data - whatever it holds there is an answer, never a panic or a 5xx; and
// with the referrers API switched off a subject has no effect
func vrManifestPutSubjects() string {
	tr, fa := true, false
	for _, enabled := range []*bool{&tr, &fa} {
		s := New(config.Config{Storage: config.ConfigStorage{StoreType: config.StoreMem}, API: config.ConfigAPI{DeleteEnabled: &tr, PushEnabled: &tr, Referrer: config.ConfigAPIReferrer{Enabled: enabled}}})
		conf := []byte(`{}`)
		cd := vrPushBlob(s, "repo", conf)
		sd, sraw := vrPushImage(s, "repo", "subject", "s")
		for _, subj := range []string{sd.String(), "latest", strings.Repeat("a", 64), "sha256:" + strings.Repeat("0", 64), "md5:abc", "sha256:xyz", ""} {
			for _, kind := range []string{"image", "index"} {
				sub := &types.Descriptor{MediaType: types.MediaTypeOCI1Manifest, Digest: digest.Digest(subj), Size: int64(len(sraw))}
				var raw []byte
				mt := types.MediaTypeOCI1Manifest
				if kind == "image" {
					raw, _ = json.Marshal(types.Manifest{SchemaVersion: 2, MediaType: mt, ArtifactType: "application/vnd.example.x",
						Config: types.Descriptor{MediaType: types.MediaTypeOCI1Empty, Digest: cd, Size: int64(len(conf))}, Layers: []types.Descriptor{}, Subject: sub})
				} else {
					mt = types.MediaTypeOCI1ManifestList
					raw, _ = json.Marshal(types.Index{SchemaVersion: 2, MediaType: mt, ArtifactType: "application/vnd.example.x", Manifests: []types.Descriptor{}, Subject: sub})
				}
				d := digest.Canonical.FromBytes(raw)
				r := vrDo(s, "PUT", "/v2/repo/manifests/"+d.String(), map[string]string{"Content-Type": mt}, raw)
				if r.panicked != nil || r.code >= 500 {
					return fmt.Sprintf("PUT of an %s manifest whose subject digest is %q (referrers enabled: %v) answers %d, panic: %v", kind, subj, *enabled, r.code, r.panicked)
				}
				if !*enabled && r.code == 201 && r.hdr.Get("OCI-Subject") != "" {
					return fmt.Sprintf("referrers API switched off: PUT of an %s manifest with subject %q is answered with OCI-Subject: %s (a referrers response was built)", kind, subj, r.hdr.Get("OCI-Subject"))
				}
			}
		}
		_ = s.Close()
	}
	return ""
}


// referrers paging (C07): following the Link chain of a listing - filtered or not, whichever was asked for first - yields
// exactly the present artifacts of that subject (of that type), each once
func vrReferrersPaging() string {
	tr := true
	for _, filteredFirst := range []bool{false, true} {
		s := New(config.Config{Storage: config.ConfigStorage{StoreType: config.StoreMem}, API: config.ConfigAPI{DeleteEnabled: &tr, PushEnabled: &tr, Referrer: config.ConfigAPIReferrer{Limit: 700}}})
		sd, sraw := vrPushImage(s, "repo", "subject", "s")
		subj := types.Descriptor{MediaType: types.MediaTypeOCI1Manifest, Digest: sd, Size: int64(len(sraw))}
		want := map[string]map[string]bool{"": {}}
		for i := 0; i < 4; i++ {
			for _, kind := range []string{"a", "b"} {
				d, code := vrPushArtifact(s, "repo", subj, kind, map[string]string{"n": fmt.Sprint(i)})
				if code != 201 {
					_ = s.Close()
					return ""
				}
				at := "application/vnd.example." + kind
				if want[at] == nil {
					want[at] = map[string]bool{}
				}
				want[at][d.String()] = true
				want[""][d.String()] = true
			}
		}
		order := []string{"", "application/vnd.example.a", "application/vnd.example.b"}
		if filteredFirst {
			order = []string{"application/vnd.example.a", "", "application/vnd.example.b"}
		}
		for _, at := range order {
			target := "/v2/repo/referrers/" + sd.String()
			if at != "" {
				target += "?artifactType=" + at
			}
			got := map[string]int{}
			for step := 0; step < 30 && target != ""; step++ {
				r := vrDo(s, "GET", target, nil, nil)
				if r.panicked != nil || r.code != 200 {
					_ = s.Close()
					return fmt.Sprintf("GET %s answers %d (panic %v)", target, r.code, r.panicked)
				}
				idx := types.Index{}
				_ = json.Unmarshal(r.body, &idx)
				for _, d := range idx.Manifests {
					if at != "" && d.ArtifactType != at {
						_ = s.Close()
						return fmt.Sprintf("GET %s (filter %s, filtered listing asked first: %v) lists %s of type %s", target, at, filteredFirst, d.Digest, d.ArtifactType)
					}
					got[d.Digest.String()]++
				}
				target = ""
				if link := r.hdr.Get("Link"); link != "" {
					i, j := strings.Index(link, "<"), strings.Index(link, ">")
					if i >= 0 && j > i {
						target = link[i+1 : j]
					}
				}
			}
			for d := range want[at] {
				if got[d] != 1 {
					_ = s.Close()
					return fmt.Sprintf("referrers of %s with filter %q (filtered listing asked first: %v): artifact %s is listed %d times along the Link chain", sd, at, filteredFirst, d, got[d])
				}
			}
			if len(got) != len(want[at]) {
				_ = s.Close()
				return fmt.Sprintf("referrers of %s with filter %q: %d entries along the Link chain, %d artifacts of that kind exist", sd, at, len(got), len(want[at]))
			}
		}
		_ = s.Close()
	}
	return ""
}

func TestVerifReplay(t *testing.T) {
	ob := os.Getenv("VERIF_OBLIGATION")
	type probe struct {
		match string
		run   func() string
	}
	probes := []probe{
		{"tagList", vrTagList},
		{"manifestGet", vrManifestGetMissingBlob},
		{"referrerAdd", vrReferrersAnnotations},
		{"referrerGet", vrReferrersFilterAnnounced},
		{"blobUploadMount", vrMountOutside},
		{"manifestPut", vrManifestPutLimits},
		{"manifestDelete", vrTagDeleteKeepsReferrer},
		{"referrerGet", vrReferrersPaging},
		{"manifestGet", vrHeadMatchesGet},
		{"blobGet", vrHeadMatchesGet},
		{"ServeHTTP", vrRateLimitPerAddress},
		{"manifestPut", vrManifestPutSubjects},
	}
	ran := 0
	for _, p := range probes {
		if ob != "" && !strings.Contains(ob, p.match) {
			continue
		}
		ran++
		if msg := p.run(); msg != "" {
			fmt.Printf("REPLAY-FAIL: %s\n", msg)
			t.Fatalf("property violated on the real code")
		}
	}
	fmt.Printf("REPLAY-NONE: %d probe(s) run for %q, no violation\n", ran, ob)
}

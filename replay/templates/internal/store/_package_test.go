package store

// Replay harness for package store (injected with `go test -overlay`; never written into /repo).
// Run after a proof obligation of this package failed: probes on the real code, selected by the name of the
// function in the obligation.  Output: "REPLAY-FAIL: ..." with the concrete history, else "REPLAY-NONE ...".

import (
	"context"
	"encoding/json"
	"fmt"
	"io"
	"os"
	"path/filepath"
	"strings"
	"testing"
	"time"

	"github.com/opencontainers/go-digest"

	"github.com/olareg/olareg/config"
	"github.com/olareg/olareg/types"
)

func vrConf(st config.Store, root string, ro bool, mut func(*config.Config)) config.Config {
	c := config.Config{Storage: config.ConfigStorage{StoreType: st, RootDir: root, ReadOnly: &ro}}
	c.Storage.GC.Frequency = -1
	if mut != nil {
		mut(&c)
	}
	c.SetDefaults()
	return c
}

func vrStores(t *testing.T, mut func(*config.Config)) map[string]Store {
	return map[string]Store{
		"mem": NewMem(vrConf(config.StoreMem, "", false, mut)),
		"dir": NewDir(vrConf(config.StoreDir, t.TempDir(), false, mut)),
	}
}

// a digest pinned at creation is part of what Verify checks (C15, C08)
func vrVerifyPinned(t *testing.T) string {
	for name, s := range vrStores(t, nil) {
		repo, err := s.RepoGet(context.Background(), "repo")
		if err != nil {
			continue
		}
		c1, c2 := []byte("pinned content"), []byte("other content")
		d1, d2 := digest.Canonical.FromBytes(c1), digest.Canonical.FromBytes(c2)
		bc, _, err := repo.BlobCreate(BlobWithDigest(d1))
		if err != nil {
			repo.Done()
			continue
		}
		_, _ = bc.Write(c2)
		verr := bc.Verify(d2)
		cerr := bc.Close()
		repo.Done()
		_ = s.Close()
		if verr == nil && cerr != nil {
			return fmt.Sprintf("%s store: session created with BlobWithDigest(%s), content with digest %s written, Verify(%s) returns nil, Close then fails: %v (a handler answers this client error with 500)", name, d1, d2, d2, cerr)
		}
	}
	return ""
}

// "exists" is acknowledged by the handlers like an upload: the blob must count as recent afterwards (C05)
func vrExistsRefreshesAge(t *testing.T) string {
	for name, s := range vrStores(t, nil) {
		repo, err := s.RepoGet(context.Background(), "repo")
		if err != nil {
			continue
		}
		content := []byte("layer that was left behind by a deleted image")
		d := digest.Canonical.FromBytes(content)
		bc, _, err := repo.BlobCreate(BlobWithDigest(d))
		if err != nil {
			repo.Done()
			continue
		}
		_, _ = bc.Write(content)
		if bc.Close() != nil {
			repo.Done()
			continue
		}
		old := time.Now().Add(-48 * time.Hour)
		switch r := repo.(type) {
		case *memRepo:
			r.mu.Lock()
			r.blobs[d].m.mod = old
			r.mu.Unlock()
		case *dirRepo:
			_ = os.Chtimes(filepath.Join(r.path, blobsDir, d.Algorithm().String(), d.Encoded()), old, old)
		}
		start := time.Now().Add(-time.Second)
		_, _, err = repo.BlobCreate(BlobWithDigest(d))
		meta, merr := repo.blobMeta(d, false)
		repo.Done()
		_ = s.Close()
		if err != nil && strings.Contains(err.Error(), "exists") && merr == nil && meta.mod.Before(start) {
			return fmt.Sprintf("%s store: blob %s is 48h old; BlobCreate(BlobWithDigest) answers %q (the handler acknowledges the upload with 201) but the blob keeps its age %s: a collection inside the grace period removes the just acknowledged blob", name, d, err, time.Since(meta.mod).Round(time.Hour))
		}
	}
	return ""
}

// one repository that cannot be collected must not keep the others from being collected in that pass (C06)
func vrGCStarvation(t *testing.T) string {
	root := t.TempDir()
	s := NewDir(vrConf(config.StoreDir, root, false, func(c *config.Config) { c.Storage.GC.GracePeriod = -1 }))
	d := s.(*dir)
	garbage := []byte("unreferenced blob")
	gd := digest.Canonical.FromBytes(garbage)
	for _, name := range []string{"a-broken", "b-healthy"} {
		repo, err := s.RepoGet(context.Background(), name)
		if err != nil {
			return ""
		}
		bc, _, err := repo.BlobCreate(BlobWithDigest(gd))
		if err == nil {
			_, _ = bc.Write(garbage)
			_ = bc.Close()
		}
		repo.Done()
	}
	// the first repository (in the order of the pass) gets an index.json that cannot be parsed
	_ = os.WriteFile(filepath.Join(root, "a-broken", indexFile), []byte("{ this is not json"), 0o644)
	future := time.Now().Add(time.Hour)
	_ = os.Chtimes(filepath.Join(root, "a-broken", indexFile), future, future)
	err := d.gc(time.Now(), time.Time{})
	_, statErr := os.Stat(filepath.Join(root, "b-healthy", blobsDir, gd.Algorithm().String(), gd.Encoded()))
	_ = s.Close()
	if statErr == nil {
		return fmt.Sprintf("dir store, no grace period: repositories a-broken (index.json unparsable) and b-healthy each hold the unreferenced blob %s; one collection pass returns %v and leaves the blob of b-healthy in place: the failing repository ended the pass", gd, err)
	}
	return ""
}

// ---- legacy layouts (C17): a repository whose referrers were kept with the fallback tag scheme

type vrLayout struct {
	dir   string
	index types.Index
}

func vrNewLayout(root, repo string) *vrLayout {
	l := &vrLayout{dir: filepath.Join(root, repo), index: types.Index{SchemaVersion: 2, MediaType: types.MediaTypeOCI1ManifestList, Manifests: []types.Descriptor{}}}
	_ = os.MkdirAll(filepath.Join(l.dir, blobsDir, "sha256"), 0o755)
	_ = os.WriteFile(filepath.Join(l.dir, layoutFile), []byte(`{"imageLayoutVersion":"1.0.0"}`), 0o644)
	return l
}

func (l *vrLayout) blob(b []byte) digest.Digest {
	d := digest.SHA256.FromBytes(b)
	_ = os.WriteFile(filepath.Join(l.dir, blobsDir, "sha256", d.Encoded()), b, 0o644)
	return d
}

func (l *vrLayout) manifest(name string, subject *types.Descriptor, artifactType string) types.Descriptor {
	cfg := []byte(`{"name":"` + name + `"}`)
	m := types.Manifest{SchemaVersion: 2, MediaType: types.MediaTypeOCI1Manifest, ArtifactType: artifactType,
		Config: types.Descriptor{MediaType: "application/vnd.oci.image.config.v1+json", Digest: l.blob(cfg), Size: int64(len(cfg))},
		Layers: []types.Descriptor{}, Subject: subject}
	raw, _ := json.Marshal(m)
	return types.Descriptor{MediaType: types.MediaTypeOCI1Manifest, Digest: l.blob(raw), Size: int64(len(raw)), ArtifactType: artifactType}
}

func (l *vrLayout) save() {
	raw, _ := json.Marshal(l.index)
	_ = os.WriteFile(filepath.Join(l.dir, indexFile), raw, 0o644)
}

// staleFallback: image S tagged v1, artifact A with subject S, and a fallback tag sha256-<S> whose index lists A with
// a wrong artifact type (so the conversion cannot adopt it and has to write a regenerated response).
// Returns the subject digest and the bytes of the response the conversion will generate.
func vrStaleFallback(root, repo string) (*vrLayout, types.Descriptor, types.Descriptor) {
	l := vrNewLayout(root, repo)
	subj := l.manifest("subject", nil, "")
	art := l.manifest("artifact", &subj, "application/vnd.example.sig")
	stale := art
	stale.ArtifactType = "application/vnd.example.stale"
	fraw, _ := json.Marshal(types.Index{SchemaVersion: 2, MediaType: types.MediaTypeOCI1ManifestList, Manifests: []types.Descriptor{stale}})
	fd := l.blob(fraw)
	tagged := subj
	tagged.ArtifactType = ""
	tagged.Annotations = map[string]string{types.AnnotRefName: "v1"}
	artTop := types.Descriptor{MediaType: art.MediaType, Digest: art.Digest, Size: art.Size}
	l.index.Manifests = append(l.index.Manifests, tagged, artTop,
		types.Descriptor{MediaType: types.MediaTypeOCI1ManifestList, Digest: fd, Size: int64(len(fraw)),
			Annotations: map[string]string{types.AnnotRefName: "sha256-" + subj.Digest.Encoded()}})
	l.save()
	return l, subj, art
}

func vrWithTimeout(d time.Duration, f func() string) (string, bool) {
	ch := make(chan string, 1)
	go func() { ch <- f() }()
	select {
	case r := <-ch:
		return r, true
	case <-time.After(d):
		return "", false
	}
}

func vrReferrersOf(repo Repo, subj digest.Digest) (int, error) {
	idx, err := repo.IndexGet()
	if err != nil {
		return 0, err
	}
	d, err := idx.GetByAnnotation(types.AnnotReferrerSubject, subj.String())
	if err != nil {
		return 0, nil
	}
	resp, err := repoGetIndex(repo, d, false)
	if err != nil {
		return 0, err
	}
	return len(resp.Manifests), nil
}

// the conversion terminates (C17): a writable directory store opening a layout with a stale fallback index
func vrConversionTerminates(t *testing.T) string {
	root := t.TempDir()
	_, subj, _ := vrStaleFallback(root, "repo")
	s := NewDir(vrConf(config.StoreDir, root, false, nil))
	msg, done := vrWithTimeout(5*time.Second, func() string {
		repo, err := s.RepoGet(context.Background(), "repo")
		if err != nil {
			return ""
		}
		defer repo.Done()
		n, err := vrReferrersOf(repo, subj.Digest)
		if err != nil || n != 1 {
			return fmt.Sprintf("writable dir store over a layout with a stale fallback index: after the conversion the referrers of %s are %d (err %v), want 1", subj.Digest, n, err)
		}
		return ""
	})
	if !done {
		return fmt.Sprintf("writable dir store over a layout whose fallback index sha256-%s is stale (wrong artifactType on its entry): the first IndexGet does not return within 5s - indexLoad holds the repository mutex, indexIngest(locked=true) calls repo.BlobCreate, which locks it again", subj.Digest.Encoded()[:12])
	}
	_ = s.Close()
	return msg
}

// the conversion can be repeated (C17): the regenerated response is already stored (interrupted conversion)
func vrConversionRepeatable(t *testing.T) string {
	root := t.TempDir()
	l, subj, art := vrStaleFallback(root, "repo")
	// what an earlier, interrupted conversion left behind: the regenerated response as a blob, index.json untouched.
	// The bytes are taken from a conversion of an identical layout in another directory.
	_ = art
	root2 := t.TempDir()
	_, _, _ = vrStaleFallback(root2, "repo")
	var raw []byte
	{
		s2 := NewMem(vrConf(config.StoreMem, root2, false, nil))
		if repo2, err := s2.RepoGet(context.Background(), "repo"); err == nil {
			if idx, err := repo2.IndexGet(); err == nil {
				if d, err := idx.GetByAnnotation(types.AnnotReferrerSubject, subj.Digest.String()); err == nil {
					if rdr, err := repo2.BlobGet(d.Digest); err == nil {
						raw, _ = io.ReadAll(rdr)
						_ = rdr.Close()
					}
				}
			}
			repo2.Done()
		}
		_ = s2.Close()
	}
	if len(raw) == 0 {
		return ""
	}
	l.blob(raw)
	s := NewDir(vrConf(config.StoreDir, root, false, nil))
	msg, done := vrWithTimeout(5*time.Second, func() string {
		repo, err := s.RepoGet(context.Background(), "repo")
		if err != nil {
			return fmt.Sprintf("directory store over a layout with a stale fallback index where an interrupted conversion already stored the regenerated response %s: opening the repository fails with %q", digest.SHA256.FromBytes(raw), err)
		}
		defer repo.Done()
		n, err := vrReferrersOf(repo, subj.Digest)
		if err != nil || n != 1 {
			return fmt.Sprintf("repeated conversion: referrers of %s are %d (err %v), want 1", subj.Digest, n, err)
		}
		return ""
	})
	if !done {
		return "repeated conversion does not terminate within 5s"
	}
	return msg
}

// C14: a read-only directory store, and a memory store over a directory, leave the directory as it was
func vrReadOnlyNeverWrites(t *testing.T) string {
	for _, kind := range []string{"dir read-only", "mem over dir"} {
		root := t.TempDir()
		l, subj, _ := vrStaleFallback(root, "repo") // the conversion would like to write a regenerated response
		_ = l
		_ = os.MkdirAll(filepath.Join(root, "repo", uploadDir), 0o755) // leftover of an earlier, writable run
		before := vrTree(root)
		var s Store
		if kind == "dir read-only" {
			s = NewDir(vrConf(config.StoreDir, root, true, func(c *config.Config) { c.Storage.GC.GracePeriod = -1 }))
		} else {
			s = NewMem(vrConf(config.StoreMem, root, false, func(c *config.Config) { c.Storage.GC.GracePeriod = -1 }))
		}
		done := make(chan struct{})
		go func() {
			defer close(done)
			repo, err := s.RepoGet(context.Background(), "repo")
			if err != nil {
				return
			}
			_, _ = repo.IndexGet()
			content := []byte("new content")
			if bc, _, err := repo.BlobCreate(BlobWithDigest(digest.Canonical.FromBytes(content))); err == nil {
				_, _ = bc.Write(content)
				_ = bc.Close()
			}
			_ = repo.IndexInsert(types.Descriptor{MediaType: types.MediaTypeOCI1Manifest, Digest: subj.Digest, Size: subj.Size, Annotations: map[string]string{types.AnnotRefName: "new"}})
			_ = repo.IndexRemove(types.Descriptor{Digest: subj.Digest, Annotations: map[string]string{types.AnnotRefName: "v1"}})
			_ = repo.BlobDelete(subj.Digest)
			if rdr, err := repo.BlobGet(subj.Digest); err == nil {
				_ = rdr.Close()
			}
			repo.Done()
			if kind != "dir read-only" {
				_ = repo.gc() // (a read-only directory store never calls gc: its callers check the switch; Close below goes that way)
			}
		}()
		select {
		case <-done:
		case <-time.After(10 * time.Second):
			return ""
		}
		_ = s.Close()
		time.Sleep(50 * time.Millisecond) // goroutines spawned by cleanups
		if diff := vrTreeDiff(before, vrTree(root)); diff != "" {
			return fmt.Sprintf("%s store over a layout (stale fallback index, leftover empty %s): after IndexGet, BlobCreate, IndexInsert, IndexRemove, BlobDelete, a collection and Close the directory differs: %s", kind, uploadDir, diff)
		}
	}
	return ""
}

// C16: no digest string makes the stores touch a file outside the repository directory
func vrPathTraversal(t *testing.T) string {
	secret := []byte("content of another repository")
	sd := digest.Canonical.FromBytes(secret)
	for _, kind := range []string{"dir", "mem over dir"} {
		root := t.TempDir()
		vrNewLayout(root, "repo").save()
		other := vrNewLayout(root, "other")
		other.blob(secret)
		other.save()
		var s Store
		if kind == "dir" {
			s = NewDir(vrConf(config.StoreDir, root, false, nil))
		} else {
			s = NewMem(vrConf(config.StoreMem, root, false, nil))
		}
		repo, err := s.RepoGet(context.Background(), "repo")
		if err != nil {
			_ = s.Close()
			continue
		}
		for _, ds := range []string{
			"sha256:x/../../../other/blobs/sha256/" + sd.Encoded(),
			"sha256:../../../other/blobs/sha256/" + sd.Encoded(),
			"../other/blobs/sha256:" + sd.Encoded(),
			"sha256/../../../other/blobs/sha256:" + sd.Encoded(),
		} {
			d := digest.Digest(ds)
			if rdr, err := repo.BlobGet(d); err == nil {
				b, _ := io.ReadAll(rdr)
				_ = rdr.Close()
				if string(b) == string(secret) {
					repo.Done()
					return fmt.Sprintf("%s store: BlobGet(%q) on repository repo returns the content of a blob of repository other", kind, ds)
				}
			}
			if _, err := repo.blobMeta(d, false); err == nil {
				repo.Done()
				return fmt.Sprintf("%s store: blobMeta(%q) on repository repo finds a file of repository other", kind, ds)
			}
			_ = repo.BlobDelete(d)
			if _, err := os.Stat(filepath.Join(root, "other", blobsDir, "sha256", sd.Encoded())); err != nil {
				repo.Done()
				return fmt.Sprintf("%s store: BlobDelete(%q) on repository repo removed a blob of repository other", kind, ds)
			}
		}
		repo.Done()
		_ = s.Close()
	}
	return ""
}

func vrTree(root string) map[string]string {
	out := map[string]string{}
	_ = filepath.Walk(root, func(p string, fi os.FileInfo, err error) error {
		if err != nil {
			return nil
		}
		rel, _ := filepath.Rel(root, p)
		if fi.IsDir() {
			out[rel] = "dir"
		} else {
			b, _ := os.ReadFile(p)
			out[rel] = fmt.Sprintf("file %d %s %s", fi.Size(), fi.ModTime().Format(time.RFC3339Nano), digest.Canonical.FromBytes(b))
		}
		return nil
	})
	return out
}

func vrTreeDiff(a, b map[string]string) string {
	var d []string
	for k, v := range a {
		if w, ok := b[k]; !ok {
			d = append(d, "removed "+k)
		} else if w != v {
			d = append(d, "changed "+k)
		}
	}
	for k := range b {
		if _, ok := a[k]; !ok {
			d = append(d, "created "+k)
		}
	}
	return strings.Join(d, ", ")
}


// reserved path components (C16): a repository name containing index.json, oci-layout or blobs is refused every time it
// is asked for, and asking for it creates nothing
func vrReservedNames(t *testing.T) string {
	root := t.TempDir()
	s := NewDir(vrConf(config.StoreDir, root, false, nil))
	defer s.Close()
	if repo, err := s.RepoGet(context.Background(), "victim"); err == nil {
		if bc, _, err := repo.BlobCreate(); err == nil {
			_, _ = bc.Write([]byte("content"))
			_ = bc.Close()
		}
		repo.Done()
	}
	before := vrTree(root)
	for _, name := range []string{"victim/blobs", "victim/blobs/sha256", "blobs", "a/index.json", "oci-layout/x", "victim/blobs/sha256/" + strings.Repeat("0", 64)} {
		for attempt := 1; attempt <= 3; attempt++ {
			repo, err := s.RepoGet(context.Background(), name)
			if err == nil {
				_, _, _ = repo.BlobCreate()
				repo.Done()
				return fmt.Sprintf("dir store: RepoGet(%q), attempt %d, hands out a repository although the name has a reserved path component", name, attempt)
			}
		}
	}
	if d := vrTreeDiff(before, vrTree(root)); d != "" {
		return "dir store: asking for reserved repository names changed the directory: " + d
	}
	return ""
}

// a deleted blob is gone (C06, C10): in a memory store over a directory too, where the copy in the directory must stay hidden
func vrDeletedBlobHidden(t *testing.T) string {
	root := t.TempDir()
	content := []byte("shared content")
	d := digest.Canonical.FromBytes(content)
	ds := NewDir(vrConf(config.StoreDir, root, false, nil))
	if repo, err := ds.RepoGet(context.Background(), "repo"); err == nil {
		if bc, _, err := repo.BlobCreate(BlobWithDigest(d)); err == nil {
			_, _ = bc.Write(content)
			_ = bc.Close()
		}
		_ = repo.IndexInsert(types.Descriptor{MediaType: "application/octet-stream", Digest: d, Size: int64(len(content)), Annotations: map[string]string{types.AnnotRefName: "keep-layout"}})
		repo.Done()
	}
	_ = ds.Close()
	for _, pushAgain := range []bool{false, true} {
		ms := NewMem(vrConf(config.StoreMem, root, false, nil))
		repo, err := ms.RepoGet(context.Background(), "repo")
		if err != nil {
			_ = ms.Close()
			continue
		}
		if pushAgain {
			if bc, _, err := repo.BlobCreate(BlobWithDigest(d)); err == nil {
				_, _ = bc.Write(content)
				_ = bc.Close()
			}
		}
		if err := repo.BlobDelete(d); err != nil {
			repo.Done()
			_ = ms.Close()
			continue
		}
		_, errGet := repo.BlobGet(d)
		repo.Done()
		_ = ms.Close()
		if errGet == nil {
			return fmt.Sprintf("mem store over a directory: blob %s (also present in the directory, pushed again to memory: %v) is still served after BlobDelete returned nil", d, pushAgain)
		}
	}
	return ""
}

// a cancelled session takes no more bytes and never becomes a blob (C08), whichever store
func vrCancelledSessionIsDead(t *testing.T) string {
	for name, s := range vrStores(t, nil) {
		repo, err := s.RepoGet(context.Background(), "repo")
		if err != nil {
			continue
		}
		bc, _, err := repo.BlobCreate()
		if err != nil {
			repo.Done()
			continue
		}
		part1, part2 := []byte("first chunk "), []byte("second chunk")
		_, _ = bc.Write(part1)
		_ = bc.Cancel()
		n, werr := bc.Write(part2)
		all := append(append([]byte{}, part1...), part2...)
		_ = bc.Verify(digest.Canonical.FromBytes(all))
		cerr := bc.Close()
		_, g1 := repo.BlobGet(digest.Canonical.FromBytes(all))
		_, g2 := repo.BlobGet(digest.Canonical.FromBytes(part1))
		repo.Done()
		_ = s.Close()
		if werr == nil || n != 0 {
			return fmt.Sprintf("%s store: Write on a cancelled upload session accepts %d bytes (err %v)", name, n, werr)
		}
		if cerr == nil || g1 == nil || g2 == nil {
			return fmt.Sprintf("%s store: a cancelled upload session was closed into a blob (Close err %v)", name, cerr)
		}
	}
	return ""
}

// what the API stored the collector sees (C10, C06): a blob under any algorithm the API accepts is listed
func vrEveryAlgorithmListed(t *testing.T) string {
	root := t.TempDir()
	s := NewDir(vrConf(config.StoreDir, root, false, nil))
	defer s.Close()
	repo, err := s.RepoGet(context.Background(), "repo")
	if err != nil {
		return ""
	}
	defer repo.Done()
	content := []byte("content")
	for _, alg := range []digest.Algorithm{digest.SHA256, digest.SHA384, digest.SHA512} {
		if !alg.Available() {
			continue
		}
		d := alg.FromBytes(content)
		bc, _, err := repo.BlobCreate(BlobWithDigest(d), BlobWithAlgorithm(alg))
		if err != nil {
			continue
		}
		_, _ = bc.Write(content)
		if bc.Close() != nil {
			continue
		}
		dl, err := repo.(*dirRepo).blobList(false)
		found := false
		for _, x := range dl {
			if x == d {
				found = true
			}
		}
		if err == nil && !found {
			return fmt.Sprintf("dir store: blob %s was stored (Close returned nil) but is not in the blob list the collector works from", d)
		}
	}
	return ""
}


// a collection between the blob uploads and the manifest push of the first image of a repository (C05): the uploads are
// younger than the grace period and must still be there afterwards, and the push must still be possible
func vrRecentUploadsSurviveEarlyCollection(t *testing.T) string {
	root := t.TempDir()
	s := NewDir(vrConf(config.StoreDir, root, false, nil))
	defer s.Close()
	repo, err := s.RepoGet(context.Background(), "fresh")
	if err != nil {
		return ""
	}
	var ds []digest.Digest
	for _, c := range [][]byte{[]byte(`{"config":1}`), []byte("layer content")} {
		bc, _, err := repo.BlobCreate()
		if err != nil {
			repo.Done()
			return ""
		}
		_, _ = bc.Write(c)
		if bc.Close() != nil {
			repo.Done()
			return ""
		}
		ds = append(ds, digest.Canonical.FromBytes(c))
	}
	repo.Done()
	if dr, ok := repo.(*dirRepo); ok {
		_ = dr.gc()
	}
	repo, err = s.RepoGet(context.Background(), "fresh")
	if err != nil {
		return fmt.Sprintf("dir store: after a collection between the blob uploads and the manifest push the repository cannot be opened: %v", err)
	}
	defer repo.Done()
	for _, d := range ds {
		rdr, err := repo.BlobGet(d)
		if err != nil {
			return fmt.Sprintf("dir store: blob %s, uploaded seconds ago (grace period one hour), is gone after a collection that ran before the manifest push: %v", d, err)
		}
		_ = rdr.Close()
	}
	return ""
}

// a memory store without a root directory never reads the file system (C16): a directory of the working directory that
// happens to be named like a repository is not a backing store
func vrMemWithoutRootStaysOffDisk(t *testing.T) string {
	name := fmt.Sprintf("zzverifreplay%d", time.Now().UnixNano())
	content := []byte("content that was never pushed")
	d := digest.Canonical.FromBytes(content)
	dir := filepath.Join(name, blobsDir, d.Algorithm().String())
	if err := os.MkdirAll(dir, 0o755); err != nil {
		return ""
	}
	defer os.RemoveAll(name)
	if err := os.WriteFile(filepath.Join(dir, d.Encoded()), content, 0o644); err != nil {
		return ""
	}
	s := NewMem(vrConf(config.StoreMem, "", false, nil))
	defer s.Close()
	repo, err := s.RepoGet(context.Background(), name)
	if err != nil {
		return ""
	}
	defer repo.Done()
	if rdr, err := repo.BlobGet(d); err == nil {
		_ = rdr.Close()
		return fmt.Sprintf("mem store without a root directory: repository %q serves blob %s from ./%s in the working directory of the process, nobody pushed it", name, d, name)
	}
	return ""
}

// a completed session ceases to exist (C08), also when the content it carried was already stored
func vrCompletedSessionIsGone(t *testing.T) string {
	for name, s := range vrStores(t, nil) {
		repo, err := s.RepoGet(context.Background(), "repo")
		if err != nil {
			continue
		}
		content := []byte("the same layer, pushed twice")
		for round := 1; round <= 2; round++ {
			bc, id, err := repo.BlobCreate()
			if err != nil {
				break
			}
			_, _ = bc.Write(content)
			if err := bc.Close(); err != nil {
				break
			}
			if _, err := repo.BlobSession(id); err == nil {
				repo.Done()
				_ = s.Close()
				return fmt.Sprintf("%s store: push number %d of the same content: the upload session %s is still there after Close returned nil", name, round, id)
			}
		}
		repo.Done()
		_ = s.Close()
	}
	return ""
}

func TestVerifReplay(t *testing.T) {
	ob := os.Getenv("VERIF_OBLIGATION")
	type probe struct {
		match string
		run   func(*testing.T) string
	}
	probes := []probe{
		{"Upload.Verify", vrVerifyPinned},
		{"fs-policy", vrReadOnlyNeverWrites},
		{"not-read-only", vrReadOnlyNeverWrites},
		{"mem-never-writes-fs", vrReadOnlyNeverWrites},
		{"#fspath:", vrPathTraversal},
		{"indexIngest#assert:no-relock", vrConversionTerminates},
		{"indexIngest#post:already-stored", vrConversionRepeatable},
		{".gc#loop", vrGCStarvation},
		{"Repo.BlobCreate#post:exists-refreshes-age", vrExistsRefreshesAge},
		{"RepoGet#", vrReservedNames},
		{"mem.RepoGet#", vrMemWithoutRootStaysOffDisk},
		{"dirRepo.gc", vrRecentUploadsSurviveEarlyCollection},
		{"Upload.Close", vrCompletedSessionIsGone},
		{"memRepo.blob", vrDeletedBlobHidden},
		{"Upload.Write", vrCancelledSessionIsDead},
		{"blobList", vrEveryAlgorithmListed},
	}
	ran := 0
	for _, p := range probes {
		if ob != "" && !strings.Contains(ob, p.match) {
			continue
		}
		ran++
		if msg := p.run(t); msg != "" {
			fmt.Printf("REPLAY-FAIL: %s\n", msg)
			t.Fatalf("property violated on the real code")
		}
	}
	fmt.Printf("REPLAY-NONE: %d probe(s) run for %q, no violation\n", ran, ob)
}


// ---------------------------------------------------------------------
// Bounded stand-in for the closure part of C05 / C06 (labelled bounded in the evidence, never counted as proved):
// the collector is run on every repository built from a small universe of objects, under every policy, and the result
// is compared with the retention rules of the property statement.
//
// Universe: configs c, c2, layers l, l2; image inner{c2,[l2]}; image outer{c,[l, inner-as-layer]}; index idx{[inner]};
// artifact art with subject S, S in {inner, l}; response resp(S) = index{[art]} with the subject annotation.
// Top-level state of inner, outer, idx: absent / untagged / tagged; artifact: absent / present (by digest, with its
// response); entry order: as listed / reversed; policies: Untagged x ReferrersWithSubj x ReferrersDangling; grace
// period disabled; optionally the blob of inner is deleted behind the index (entry without content).
// Further dimensions: the index removed by digest again (its child stays recorded), the grace period on with
// everything recent (then nothing a client stored may go).

type vbObj struct {
	name string
	raw  []byte
	desc types.Descriptor
}

type vbWorld struct {
	repo  Repo
	objs  map[string]*vbObj
	order []string
}

func vbJSON(v any) []byte { b, _ := json.Marshal(v); return b }

func (w *vbWorld) put(name string, raw []byte, mediaType string) *vbObj {
	o := &vbObj{name: name, raw: raw, desc: types.Descriptor{MediaType: mediaType, Digest: digest.Canonical.FromBytes(raw), Size: int64(len(raw))}}
	w.objs[name] = o
	bc, _, err := w.repo.BlobCreate(BlobWithDigest(o.desc.Digest))
	if err == nil {
		_, _ = bc.Write(raw)
		_ = bc.Close()
	}
	return o
}

func (w *vbWorld) has(name string) bool {
	o := w.objs[name]
	if o == nil {
		return true
	}
	rdr, err := w.repo.BlobGet(o.desc.Digest)
	if err != nil {
		return false
	}
	_ = rdr.Close()
	return true
}

type vbCase struct {
	inner, outer, idx int // 0 absent, 1 untagged, 2 tagged
	art               int // 0 absent, 1 subject inner, 2 subject l (a layer)
	reversed          bool
	untagged, withSubj, dangling bool
	blobless          bool // the blob of inner is deleted through the blob API before the collection (its entry stays)
	idxRemoved        bool // the index idx is removed by digest again before the collection (inner stays recorded as its child)
	grace             bool // the grace period is on (1h) and everything was pushed just now
}

func (c vbCase) String() string {
	st := []string{"absent", "untagged", "tagged"}
	as := []string{"none", "artifact(subject=inner)", "artifact(subject=layer l)"}
	bl := ""
	if c.blobless {
		bl = " blob-of-inner-deleted"
	}
	if c.idxRemoved {
		bl += " idx-removed-by-digest-again"
	}
	if c.grace {
		bl += " GRACE=1h(everything is recent)"
	}
	return fmt.Sprintf("inner=%s outer=%s idx=%s %s reversed=%v policy{Untagged=%v ReferrersWithSubj=%v ReferrersDangling=%v} grace=off%s",
		st[c.inner], st[c.outer], st[c.idx], as[c.art], c.reversed, c.untagged, c.withSubj, c.dangling, bl)
}

// vbRun builds the repository of a case in the store, runs one collection, and returns the violated rules
// (rule id -> text), per property.
func vbRun(c vbCase, mk func(config.Config) Store, stName string, root string) map[string]string {
	out := map[string]string{}
	conf := vrConf(config.StoreMem, root, false, func(cf *config.Config) {
		cf.Storage.GC.GracePeriod = -1
		if c.grace {
			cf.Storage.GC.GracePeriod = time.Hour
		}
		cf.Storage.GC.Untagged = &c.untagged
		cf.Storage.GC.ReferrersWithSubj = &c.withSubj
		cf.Storage.GC.ReferrersDangling = &c.dangling
		f := false
		cf.Storage.GC.EmptyRepo = &f
	})
	s := mk(conf)
	defer s.Close()
	repo, err := s.RepoGet(context.Background(), "repo")
	if err != nil {
		return out
	}
	released := false
	defer func() {
		if !released {
			repo.Done()
		}
	}()
	w := &vbWorld{repo: repo, objs: map[string]*vbObj{}}
	cfg := w.put("c", []byte(`{"architecture":"amd64"}`), "application/vnd.oci.image.config.v1+json")
	lay := w.put("l", []byte("layer bytes"), "application/vnd.oci.image.layer.v1.tar")
	junk := w.put("junk", []byte("a blob nothing refers to"), "application/octet-stream")
	_ = junk
	var inner, outer, idx, art, resp *vbObj
	if c.inner > 0 || c.idx > 0 || c.outer > 0 || c.art == 1 {
		cfg2 := w.put("c2", []byte(`{"architecture":"arm64"}`), "application/vnd.oci.image.config.v1+json")
		lay2 := w.put("l2", []byte("layer bytes of inner"), "application/vnd.oci.image.layer.v1.tar")
		inner = w.put("inner", vbJSON(types.Manifest{SchemaVersion: 2, MediaType: types.MediaTypeOCI1Manifest, Config: cfg2.desc, Layers: []types.Descriptor{lay2.desc}}), types.MediaTypeOCI1Manifest)
	}
	if c.outer > 0 {
		asLayer := inner.desc
		asLayer.MediaType = "application/vnd.oci.image.layer.v1.tar"
		outer = w.put("outer", vbJSON(types.Manifest{SchemaVersion: 2, MediaType: types.MediaTypeOCI1Manifest, Config: cfg.desc, Layers: []types.Descriptor{lay.desc, asLayer},
			Annotations: map[string]string{"which": "outer"}}), types.MediaTypeOCI1Manifest)
	}
	if c.idx > 0 {
		idx = w.put("idx", vbJSON(types.Index{SchemaVersion: 2, MediaType: types.MediaTypeOCI1ManifestList, Manifests: []types.Descriptor{inner.desc}}), types.MediaTypeOCI1ManifestList)
	}
	var subj *vbObj
	if c.art == 1 {
		subj = inner
	} else if c.art == 2 {
		subj = lay
	}
	if subj != nil {
		sd := subj.desc
		art = w.put("art", vbJSON(types.Manifest{SchemaVersion: 2, MediaType: types.MediaTypeOCI1Manifest, ArtifactType: "application/vnd.example.sig",
			Config: types.Descriptor{MediaType: types.MediaTypeOCI1Empty, Digest: cfg.desc.Digest, Size: cfg.desc.Size}, Layers: []types.Descriptor{}, Subject: &sd}), types.MediaTypeOCI1Manifest)
		ad := art.desc
		ad.ArtifactType = "application/vnd.example.sig"
		resp = w.put("resp", vbJSON(types.Index{SchemaVersion: 2, MediaType: types.MediaTypeOCI1ManifestList, Manifests: []types.Descriptor{ad}}), types.MediaTypeOCI1ManifestList)
	}
	type ins struct {
		o   *vbObj
		ann map[string]string
	}
	var list []ins
	top := func(o *vbObj, st int, tag string) {
		if o == nil || st == 0 {
			return
		}
		if st == 2 {
			list = append(list, ins{o, map[string]string{types.AnnotRefName: tag}})
		} else {
			list = append(list, ins{o, nil})
		}
	}
	top(inner, c.inner, "inner")
	top(outer, c.outer, "outer")
	top(idx, c.idx, "idx")
	if art != nil {
		list = append(list, ins{art, nil})
		list = append(list, ins{resp, map[string]string{types.AnnotReferrerSubject: subj.desc.Digest.String()}})
	}
	if c.reversed {
		for i, j := 0, len(list)-1; i < j; i, j = i+1, j-1 {
			list[i], list[j] = list[j], list[i]
		}
	}
	for _, in := range list {
		d := in.o.desc
		d.Annotations = in.ann
		var opts []types.IndexOpt
		if in.o == idx {
			opts = append(opts, types.IndexWithChildren([]types.Descriptor{inner.desc}))
		}
		_ = repo.IndexInsert(d, opts...)
	}
	removedTop := map[string]bool{}
	if c.idxRemoved && idx != nil && c.idx > 0 {
		if repo.IndexRemove(types.Descriptor{Digest: idx.desc.Digest}) == nil {
			removedTop["idx"] = true
		}
	}
	gone := map[string]bool{}
	if c.blobless && inner != nil {
		if repo.BlobDelete(inner.desc.Digest) == nil {
			gone["inner"] = true
		}
	}
	before, _ := repo.IndexGet()
	// ---- the retention rules of C05, as a least fixed point over (object, role)
	keepM := map[string]bool{} // retained as a manifest (walk its content)
	keepB := map[string]bool{} // retained as a blob
	var roots []string
	for _, in := range list {
		if in.o == resp || removedTop[in.o.name] {
			continue
		}
		tagged := in.ann != nil && in.ann[types.AnnotRefName] != ""
		if tagged || !c.untagged {
			roots = append(roots, in.o.name)
		}
	}
	work := append([]string{}, roots...)
	for len(work) > 0 {
		n := work[len(work)-1]
		work = work[:len(work)-1]
		if keepM[n] || gone[n] {
			continue // a manifest whose blob is gone cannot be walked and retains nothing
		}
		keepM[n], keepB[n] = true, true
		switch n {
		case "inner":
			keepB["c2"], keepB["l2"] = true, true
		case "outer":
			keepB["c"], keepB["l"], keepB["inner"] = true, true, true
		case "idx":
			work = append(work, "inner")
		case "art":
			keepB["c"] = true
		case "resp":
			work = append(work, "art")
		}
		// the referrers of a retained subject, whatever role the subject is retained in
		if subj != nil && !gone[subj.name] && (keepB[subj.name] || keepM[subj.name]) && !keepM["resp"] {
			work = append(work, "resp")
		}
	}
	if subj != nil && !gone[subj.name] && (keepB[subj.name] || keepM[subj.name]) && !keepM["resp"] {
		keepM["resp"], keepB["resp"], keepM["art"], keepB["art"], keepB["c"] = true, true, true, true, true
	}
	hadBefore := map[string]bool{}
	for n := range w.objs {
		hadBefore[n] = w.has(n)
	}
	// ---- one collection (it waits until nobody holds the repository)
	repo.Done()
	released = true
	if err := repo.gc(); err != nil {
		return out
	}
	for _, n := range []string{"c", "l", "c2", "l2", "inner", "outer", "idx", "art", "resp"} {
		if w.objs[n] != nil && keepB[n] && !gone[n] && !w.has(n) {
			why := "retained by the rules (tagged, or untagged collection off, or referenced by a retained manifest, or referrer of a retained subject)"
			id := "C05:removed-" + n
			if c.idxRemoved {
				id = "C05:after-index-removal:removed-" + n
			}
			out[id] = fmt.Sprintf("%s store, %s: the collection removed the blob of %s, which is %s", stName, c, n, why)
		}
	}
	if c.grace {
		// everything was uploaded or pushed within the grace period: nothing a client stored may be removed
		// (a referrers response is generated by the server and follows the subject policy)
		for _, n := range []string{"c", "l", "c2", "l2", "junk", "inner", "outer", "idx", "art"} {
			if w.objs[n] != nil && !gone[n] && !w.has(n) {
				out["C05:recent-removed-"+n] = fmt.Sprintf("%s store, %s: the collection removed %s although it was stored seconds ago, well inside the grace period", stName, c, n)
			}
		}
	}
	after, _ := repo.IndexGet()
	for _, in := range list {
		if removedTop[in.o.name] {
			continue
		}
		if in.ann != nil && in.ann[types.AnnotRefName] != "" && !gone[in.o.name] {
			if _, err := after.GetDesc(in.ann[types.AnnotRefName]); err != nil {
				out["C05:untagged-"+in.o.name] = fmt.Sprintf("%s store, %s: tag %q no longer resolves after the collection", stName, c, in.ann[types.AnnotRefName])
			}
		}
	}
	_ = before
	if c.grace {
		return out
	}
	// ---- C06: garbage is gone, no entry without content, a second pass changes nothing
	for _, n := range []string{"inner", "outer", "idx", "art"} {
		if o := w.objs[n]; o != nil && hadBefore[n] && !w.has(n) {
			if _, err := after.GetDesc(o.desc.Digest.String()); err == nil {
				out["C06:record-without-blob"] = fmt.Sprintf("%s store, %s: the collection removed the blob of %s but the index still resolves its digest (top-level entry or child record)", stName, c, n)
			}
		}
	}
	if w.has("junk") {
		out["C06:junk-kept"] = fmt.Sprintf("%s store, %s: an unreferenced blob survives the collection although the grace period is off", stName, c)
	}
	for _, d := range after.Manifests {
		rdr, err := repo.BlobGet(d.Digest)
		if err != nil {
			out["C06:entry-without-blob"] = fmt.Sprintf("%s store, %s: after the collection index entry %s has no blob", stName, c, d.Digest)
		} else {
			_ = rdr.Close()
		}
	}
	for _, n := range []string{"inner", "outer", "idx"} {
		if w.objs[n] != nil && !keepB[n] && !keepM[n] && c.untagged && w.has(n) {
			isTop := false
			for _, in := range list {
				if in.o.name == n {
					isTop = true
				}
			}
			if isTop {
				out["C06:untagged-kept-"+n] = fmt.Sprintf("%s store, %s: untagged, unreferenced manifest %s survives the collection although untagged collection is on", stName, c, n)
			}
		}
	}
	bl1, _ := repo.blobList(false)
	if err := repo.gc(); err == nil {
		bl2, _ := repo.blobList(false)
		again, _ := repo.IndexGet()
		if len(bl1) != len(bl2) || len(again.Manifests) != len(after.Manifests) {
			out["C06:second-pass-changes"] = fmt.Sprintf("%s store, %s: a second collection changes the repository again (blobs %d -> %d, index entries %d -> %d)", stName, c, len(bl1), len(bl2), len(after.Manifests), len(again.Manifests))
		}
	}
	return out
}

// vbEmptyRepo (C06, directory store): a repository that held blobs under every digest algorithm the store accepts and
// is then emptied is removed by the collection when EmptyRepo is on (for each subset of the two algorithms).
func vbEmptyRepo(t *testing.T) map[string]string {
	out := map[string]string{}
	for mask := 1; mask < 4; mask++ {
		root := t.TempDir()
		s := NewDir(vrConf(config.StoreDir, root, false, func(c *config.Config) { c.Storage.GC.GracePeriod = -1 }))
		repo, err := s.RepoGet(context.Background(), "repo")
		if err != nil {
			continue
		}
		var algos []string
		for i, a := range []digest.Algorithm{digest.SHA256, digest.SHA512} {
			if mask&(1<<i) == 0 {
				continue
			}
			algos = append(algos, a.String())
			content := []byte("blob under " + a.String())
			d := a.FromBytes(content)
			if bc, _, err := repo.BlobCreate(BlobWithDigest(d)); err == nil {
				_, _ = bc.Write(content)
				_ = bc.Close()
			}
		}
		repo.Done()
		_ = repo.gc() // removes the unreferenced blobs (no grace period) and, the repository being empty, the repository
		_ = repo.gc()
		if _, err := os.Stat(filepath.Join(root, "repo")); err == nil {
			left := []string{}
			for k := range vrTree(filepath.Join(root, "repo")) {
				left = append(left, k)
			}
			out["C06:empty-repo-not-removed"] = fmt.Sprintf("dir store, EmptyRepo on, no grace period: a repository that held blobs under %v and is empty after the collection is still there after two passes (left: %v)", algos, left)
		}
		_ = s.Close()
	}
	return out
}

// vbLayoutSurvives (C10, C09; directory store): a collection in a repository that still holds content (a recent blob, or
// blobs under another algorithm) leaves a valid layout behind: oci-layout and index.json are both there, or the
// repository is gone as a whole; and what is acknowledged afterwards is there after a restart.
func vbLayoutSurvives(t *testing.T) map[string]string {
	out := map[string]string{}
	for _, algo := range []digest.Algorithm{digest.SHA256, digest.SHA512} {
		root := t.TempDir()
		conf := vrConf(config.StoreDir, root, false, nil) // default grace period: the uploaded blob is recent
		s := NewDir(conf)
		repo, err := s.RepoGet(context.Background(), "repo")
		if err != nil {
			continue
		}
		content := []byte("layer uploaded before its manifest")
		d := algo.FromBytes(content)
		if bc, _, err := repo.BlobCreate(BlobWithDigest(d)); err == nil {
			_, _ = bc.Write(content)
			_ = bc.Close()
		}
		repo.Done()
		_ = repo.gc() // nothing is tagged yet: the index is empty, the blob is protected by the grace period
		_, errL := os.Stat(filepath.Join(root, "repo", layoutFile))
		_, errI := os.Stat(filepath.Join(root, "repo", indexFile))
		_, errB := os.Stat(filepath.Join(root, "repo", blobsDir, algo.String(), d.Encoded()))
		if errB == nil && (errL != nil || errI != nil) {
			out["C10:layout-torn-by-collection"] = fmt.Sprintf("dir store, default policy: a %s blob is uploaded to a new repository and a collection runs before the manifest is pushed: the blob is kept (grace period) but oci-layout present=%v index.json present=%v - the directory is no longer a valid layout", algo, errL == nil, errI == nil)
		}
		// the manifest arrives, the server is restarted: is the acknowledged content still served?
		repo2, err := s.RepoGet(context.Background(), "repo")
		if err == nil {
			man := vbJSON(types.Manifest{SchemaVersion: 2, MediaType: types.MediaTypeOCI1Manifest,
				Config: types.Descriptor{MediaType: types.MediaTypeOCI1Empty, Digest: d, Size: int64(len(content))}, Layers: []types.Descriptor{}})
			md := digest.Canonical.FromBytes(man)
			if bc, _, err := repo2.BlobCreate(BlobWithDigest(md)); err == nil {
				_, _ = bc.Write(man)
				_ = bc.Close()
			}
			ierr := repo2.IndexInsert(types.Descriptor{MediaType: types.MediaTypeOCI1Manifest, Digest: md, Size: int64(len(man)), Annotations: map[string]string{types.AnnotRefName: "v1"}})
			repo2.Done()
			_ = s.Close()
			if ierr == nil {
				s3 := NewDir(conf)
				if repo3, err := s3.RepoGet(context.Background(), "repo"); err == nil {
					idx, _ := repo3.IndexGet()
					_, gerr := idx.GetDesc("v1")
					rdr, berr := repo3.BlobGet(md)
					if berr == nil {
						_ = rdr.Close()
					}
					repo3.Done()
					if gerr != nil || berr != nil {
						out["C10:acknowledged-push-lost-after-restart"] = fmt.Sprintf("dir store: %s blob uploaded, collection, manifest pushed under tag v1 (acknowledged), restart: tag resolves=%v manifest blob served=%v", algo, gerr == nil, berr == nil)
					}
				}
				_ = s3.Close()
			}
		} else {
			_ = s.Close()
		}
	}
	return out
}

func TestVerifBounded(t *testing.T) {
	prop := os.Getenv("VERIF_PROPERTY")
	stores := []string{"mem"}
	if os.Getenv("VERIF_TIER") == "thorough" {
		stores = append(stores, "dir")
	}
	first := map[string]string{}
	count := map[string]int{}
	n := 0
	for _, stName := range stores {
		for inner := 0; inner < 3; inner++ {
			for outer := 0; outer < 3; outer++ {
				for idx := 0; idx < 3; idx++ {
					for art := 0; art < 3; art++ {
						for _, rev := range []bool{false, true} {
							for pol := 0; pol < 64; pol++ {
								if pol&8 != 0 && inner == 0 {
									continue
								}
								if pol&16 != 0 && idx == 0 {
									continue
								}
								c := vbCase{inner, outer, idx, art, rev, pol&1 != 0, pol&2 != 0, pol&4 != 0, pol&8 != 0, pol&16 != 0, pol&32 != 0}
								n++
								var res map[string]string
								if stName == "mem" {
									res = vbRun(c, func(cf config.Config) Store { cf.Storage.StoreType = config.StoreMem; return NewMem(cf) }, stName, "")
								} else {
									res = vbRun(c, func(cf config.Config) Store { cf.Storage.StoreType = config.StoreDir; return NewDir(cf) }, stName, t.TempDir())
								}
								for id, msg := range res {
									if !strings.HasPrefix(id, prop+":") {
										continue
									}
									count[id]++
									if _, ok := first[id]; !ok {
										first[id] = msg
									}
								}
							}
						}
					}
				}
			}
		}
	}
	if prop == "C10" || prop == "C09" {
		fmt.Println("BOUNDED-BOUND: two scenarios on the directory store (a sha256 / a sha512 blob uploaded to a new repository, one collection before the manifest is pushed, then the manifest, then a restart): the directory stays a valid layout and the acknowledged push survives the restart; this is a scenario test, not an exploration, and decides only the interplay of collection and layout files (defect D12)")
		for id, msg := range vbLayoutSurvives(t) {
			id = prop + strings.TrimPrefix(id, "C10")
			count[id]++
			first[id] = msg
		}
		fmt.Printf("BOUNDED-DONE: property %s, 2 scenarios (directory store, sha256 and sha512), %d rule(s) violated\n", prop, len(first))
		for id, msg := range first {
			fmt.Printf("BOUNDED-FAIL: %s: %s\n", strings.TrimPrefix(id, prop+":"), msg)
		}
		return
	}
	if prop == "C06" {
		for id, msg := range vbEmptyRepo(t) {
			count[id]++
			first[id] = msg
		}
	}
	for id, msg := range first {
		fmt.Printf("BOUNDED-FAIL: %s: %s (%d of %d repositories)\n", strings.TrimPrefix(id, prop+":"), msg, count[id], n)
	}
	fmt.Printf("BOUNDED-DONE: property %s, %d repositories (stores %v), %d rule(s) violated\n", prop, n, stores, len(first))
}

package cache

// Replay harness for package cache (injected with `go test -overlay`; never written into /repo).
// Run after a proof obligation failed: a bounded, sequential search on the real code for a history that
// violates the statement of C20 (cleanup before removal, keep on error, age bound, count bound).
// Output: "REPLAY-FAIL: ..." for the first failing history, else "REPLAY-NONE ...".

import (
	"errors"
	"fmt"
	"sort"
	"strings"
	"testing"
	"time"
)

type vrEvent struct {
	key string
	ok  bool
}

type vrWorld struct {
	c       *Cache[string, int]
	log     []vrEvent
	failing map[string]bool
}

func vrNew(count int, age time.Duration, withFn bool) *vrWorld {
	w := &vrWorld{failing: map[string]bool{}}
	o := Opts[string, int]{Count: count, Age: age}
	if withFn {
		o.PruneFn = func(k string, _ int) error {
			if w.failing[k] {
				w.log = append(w.log, vrEvent{k, false})
				return errors.New("cleanup failed")
			}
			w.log = append(w.log, vrEvent{k, true})
			return nil
		}
	}
	w.c = New(o)
	return w
}

func (w *vrWorld) keys() []string {
	w.c.mu.Lock()
	defer w.c.mu.Unlock()
	var ks []string
	for k := range w.c.entries {
		ks = append(ks, k)
	}
	sort.Strings(ks)
	return ks
}

func vrHasKey(ks []string, k string) bool {
	for _, x := range ks {
		if x == k {
			return true
		}
	}
	return false
}

// step runs one operation and checks the two-state clauses; returns a violation message or ""
func (w *vrWorld) step(op string, withFn bool) string {
	before := w.keys()
	w.log = nil
	parts := strings.SplitN(op, ":", 2)
	switch parts[0] {
	case "set":
		w.c.Set(parts[1], 1)
		time.Sleep(2 * time.Millisecond) // let a count-triggered prune goroutine finish
	case "del":
		_ = w.c.Delete(parts[1])
	case "delall":
		_ = w.c.DeleteAll()
	case "prunecount":
		w.c.pruneCount()
	case "fail":
		w.failing[parts[1]] = true
		return ""
	case "heal":
		delete(w.failing, parts[1])
		return ""
	}
	after := w.keys()
	cleaned, failed := map[string]bool{}, map[string]bool{}
	for _, e := range w.log {
		if e.ok {
			cleaned[e.key] = true
		} else {
			failed[e.key] = true
		}
	}
	for _, k := range before {
		if !vrHasKey(after, k) && withFn && !cleaned[k] {
			return fmt.Sprintf("entry %q was removed without a successful cleanup", k)
		}
	}
	for k := range failed {
		if !cleaned[k] && vrHasKey(before, k) && !vrHasKey(after, k) {
			return fmt.Sprintf("entry %q was removed although its cleanup failed", k)
		}
	}
	if (parts[0] == "prunecount" || parts[0] == "set") && w.c.maxCount > 0 && len(failed) == 0 && len(w.failing) == 0 {
		if parts[0] == "set" {
			w.c.pruneCount() // the spawned prune may not have run yet; the bound is about the state after pruning
			after = w.keys()
		}
		if len(after) > w.c.maxCount {
			return fmt.Sprintf("after pruning with all cleanups succeeding %d entries remain, limit is %d", len(after), w.c.maxCount)
		}
	}
	return ""
}

func TestVerifReplay(t *testing.T) {
	ops := []string{"set:a", "set:b", "set:c", "del:a", "del:b", "delall", "prunecount", "fail:a", "heal:a"}
	explored := 0
	for _, count := range []int{0, 1, 2, 3} {
		for _, withFn := range []bool{true, false} {
			var rec func(hist []string, depth int) bool
			rec = func(hist []string, depth int) bool {
				if depth == 0 {
					return false
				}
				for _, op := range ops {
					// re-run the history on a fresh cache (the cache is not copyable)
					w := vrNew(count, 0, withFn)
					bad := false
					for _, h := range hist {
						if w.step(h, withFn) != "" {
							bad = true
							break
						}
					}
					if bad {
						continue
					}
					explored++
					if msg := w.step(op, withFn); msg != "" {
						fmt.Printf("REPLAY-FAIL: %s; Opts{Count: %d, PruneFn: %v}; history: %s ; %s; entries now %v\n", msg, count, withFn, strings.Join(hist, " ; "), op, w.keys())
						t.Fatalf("property violated on the real code")
						return true
					}
					if rec(append(append([]string{}, hist...), op), depth-1) {
						return true
					}
				}
				return false
			}
			rec(nil, 3)
		}
	}
	fmt.Printf("REPLAY-NONE: %d histories of up to 3 operations explored, no violation\n", explored)
}

#!/bin/sh
# copies the contract files (comment-only, build tag verif) from /verif/contracts into /repo; the copy in /repo is authoritative for checks
set -e
cd /verif/contracts
find . -name verif_contracts.go | while read f; do
  mkdir -p "/repo/$(dirname "$f")"
  cp "$f" "/repo/$f"
done

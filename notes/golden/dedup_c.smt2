; referrerListDedup: loop invariant preservation, both branches, in the planned heap encoding
(declare-sort Str 0)
(declare-datatypes ((Desc 0)) (((mkD (mtype Str) (dig Str) (size Int) (annot Int)))))
(declare-datatypes ((Slice 0)) (((mkS (arr Int) (off Int) (len Int) (cap Int)))))
; heap component for []Descriptor elements, versions: E0 at function entry, E at loop head, E2 after body
(declare-const E0 (Array Int (Array Int Desc)))
(declare-const E  (Array Int (Array Int Desc)))
(declare-const rl0 Slice)
(declare-const rl Slice)
(declare-const i Int)
; map seen: dom/val keyed by Ref
(declare-const seenRef Int)
(declare-const dom (Array Int (Array Str Bool)))
(declare-const val (Array Int (Array Str Bool)))
(define-fun lookupB ((dm (Array Int (Array Str Bool))) (vl (Array Int (Array Str Bool))) (r Int) (k Str)) Bool
  (and (not (= r 0)) (select (select dm r) k) (select (select vl r) k)))
(define-fun at ((e (Array Int (Array Int Desc))) (s Slice) (k Int)) Desc (select (select e (arr s)) (+ (off s) k)))
; well-formed slices
(assert (and (not (= (arr rl0) 0)) (<= 0 (off rl0)) (<= 0 (len rl0)) (<= (len rl0) (cap rl0))))
(assert (not (= seenRef 0)))
; ---- invariant at loop head ----
(assert (and (= (arr rl) (arr rl0)) (= (off rl) (off rl0)) (<= 0 i) (<= i (len rl)) (<= (len rl) (len rl0))))
; (a) prefix distinct
(assert (forall ((a Int) (b Int)) (! (=> (and (<= 0 a) (< a b) (< b i)) (not (= (dig (at E rl a)) (dig (at E rl b)))))
   :pattern ((at E rl a) (at E rl b)))))
; (b) seen = digests of prefix   (=> direction with skolem sidx, <= direction universal)
(declare-fun sidx (Str) Int)
(assert (forall ((x Str)) (! (=> (lookupB dom val seenRef x) (and (<= 0 (sidx x)) (< (sidx x) i) (= (dig (at E rl (sidx x))) x)))
   :pattern ((select (select dom seenRef) x)))))
(assert (forall ((a Int)) (! (=> (and (<= 0 a) (< a i)) (lookupB dom val seenRef (dig (at E rl a)))) :pattern ((at E rl a)))))
; (c) complete: every original digest still present (skolem cpos)
(declare-fun cpos (Int) Int)
(assert (forall ((j Int)) (! (=> (and (<= 0 j) (< j (len rl0)))
     (and (<= 0 (cpos j)) (< (cpos j) (len rl)) (= (dig (at E rl (cpos j))) (dig (at E0 rl0 j)))))
   :pattern ((at E0 rl0 j)))))
; ---- loop guard ----
(assert (< i (len rl)))
; ---- body ----
(define-fun cur () Desc (at E rl i))
(define-fun isDup () Bool (lookupB dom val seenRef (dig cur)))
(declare-const E2 (Array Int (Array Int Desc)))
(declare-const rl2 Slice)
(declare-const i2 Int)
(declare-const dom2 (Array Int (Array Str Bool)))
(declare-const val2 (Array Int (Array Str Bool)))
(assert (ite isDup
  (and (= E2 (store E (arr rl) (store (select E (arr rl)) (+ (off rl) i) (at E rl (- (len rl) 1)))))
       (= rl2 (mkS (arr rl) (off rl) (- (len rl) 1) (cap rl)))
       (= i2 i) (= dom2 dom) (= val2 val))
  (and (= E2 E) (= rl2 rl) (= i2 (+ i 1))
       (= dom2 (store dom seenRef (store (select dom seenRef) (dig cur) true)))
       (= val2 (store val seenRef (store (select val seenRef) (dig cur) true))))))
; ---- negated invariant after body ----
(declare-const ga Int) (declare-const gb Int) (declare-const gx Str) (declare-const gj Int) (declare-const gp Int)
(assert (and (<= 0 gj) (< gj (len rl0)) (forall ((k Int)) (! (=> (and (<= 0 k) (< k (len rl2))) (not (= (dig (at E2 rl2 k)) (dig (at E0 rl0 gj))))) :pattern ((at E2 rl2 k))))))
(check-sat)

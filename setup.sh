#!/bin/sh
# builds the verifier from files on disk only (module cache), offline
set -e
cd "$(dirname "$0")"
export GOFLAGS=-mod=mod GOPROXY=off GOSUMDB=off GOTOOLCHAIN=local CGO_ENABLED=0
mkdir -p bin work evidence replays
(cd govc && go build -o ../bin/govc ./cmd/govc)
echo "govc built"
